"""C12 -- consumers exist exactly while they hold allocations (E-seq, fixpoint)."""
from vp import explore_seq, reqs, world
from vp.names import K, P, UNKNOWN_UUID
from vp.props.c01 import fill
from vp.world import cgen_of, consumer_allocs, gen_of

DEFAULT_MISSING = '00000000-0000-0000-0000-000000000000'
INV = {'total': 4}


class Spec(object):
    def __init__(self, nconsumers=2, override=False, nproviders=1):
        self.consumers = [K(i) for i in range(1, nconsumers + 1)]
        self.override = override
        self.nproviders = nproviders
        if override:
            self.conf = {('placement', 'incomplete_consumer_project_id'): 'ph-project',
                         ('placement', 'incomplete_consumer_user_id'): 'ph-user'}
            self.placeholder = ('ph-project', 'ph-user')
        else:
            self.placeholder = (DEFAULT_MISSING, DEFAULT_MISSING)

    def starts(self):
        s = [reqs.mk_rp(1), reqs.put_invs(P(1), 0, {'VCPU': INV}), reqs.mk_rp(2)]
        if self.nproviders > 1:
            s.append(reqs.put_invs(P(2), 0, {'VCPU': INV}))
        return [('providers', s)]

    def canon(self, d):
        return d.key(gens=False)

    def alphabet(self, d):
        out = []
        one = {P(1): {'VCPU': 1}}
        for k in self.consumers:
            cg = cgen_of(d, k)
            out.append(reqs.put_alloc(k, one, mv='1.7', tag='PUT@1.7 list, no project'))
            out.append(reqs.put_alloc(k, one, mv='1.8', project='p1', user='u1', tag='PUT@1.8 p1'))
            out.append(reqs.put_alloc(k, one, mv='1.12', project='p2', user='u2',
                                      tag='PUT@1.12 p2'))
            out.append(reqs.put_alloc(k, one, mv='1.28', cgen=None, tag='PUT@1.28 gen null'))
            out.append(reqs.put_alloc(k, one, mv='1.28', cgen=cg, project='p2', user='u1',
                                      tag='PUT@1.28 gen current p2/u1'))
            out.append(reqs.put_alloc(k, one, mv='1.28', cgen=cgen_of(d, k, stale=True),
                                      tag='PUT@1.28 gen stale'))
            for ty in ('INSTANCE', 'MIGRATION'):
                out.append(reqs.put_alloc(k, one, mv='1.38', cgen=cg, ctype=ty,
                                          tag='PUT@1.38 %s' % ty))
            if self.nproviders > 1:
                out.append(reqs.put_alloc(k, {P(2): {'VCPU': 1}}, mv='1.38', cgen=cg,
                                          tag='PUT@1.38 move to P2'))
            out.append(reqs.put_alloc(k, {}, mv='1.28', cgen=cg, tag='PUT@1.28 clear'))
            out.append(reqs.put_alloc(k, {}, mv='1.38', cgen=None, tag='PUT@1.38 clear gen null'))
            # rejected variants
            out.append(reqs.put_alloc(k, {P(1): {'VCPU': 5}}, mv='1.28', cgen=cg,
                                      tag='PUT over capacity'))
            out.append(reqs.put_alloc(k, {UNKNOWN_UUID: {'VCPU': 1}}, mv='1.28', cgen=cg,
                                      tag='PUT unknown provider'))
            out.append(reqs.put_alloc(k, {UNKNOWN_UUID: {'VCPU': 1}}, mv='1.8',
                                      tag='PUT@1.8 unknown provider'))
            if self.nproviders == 1:
                out.append(reqs.put_alloc(k, {P(2): {'VCPU': 1}}, mv='1.38', cgen=cg,
                                          tag='PUT provider without inventory'))
            out.append(reqs.put_alloc(k, {P(1): {'MEMORY_MB': 1}}, mv='1.38', cgen=cg,
                                      tag='PUT class without inventory'))
            out.append(reqs.put_alloc(k, {P(1): {'CUSTOM_NOPE': 1}}, mv='1.38', cgen=cg,
                                      tag='PUT unknown class'))
            out.append(reqs.del_alloc(k, tag='DELETE'))
            # reshaper removing K's last allocation
            if k in d.consumers:
                out.append(reqs.reshaper({P(1): (gen_of(d, P(1)), {'VCPU': INV})},
                                         {k: {'allocs': {}, 'cgen': cg}},
                                         tag='reshaper empties consumer'))
                out.append(reqs.reshaper({P(1): (gen_of(d, P(1)), {'VCPU': INV})},
                                         {k: {'allocs': {UNKNOWN_UUID: {'VCPU': 1}}, 'cgen': cg}},
                                         tag='reshaper unknown provider'))
        k1, k2 = self.consumers[0], self.consumers[1]

        def ent(k, allocs, **kw):
            e = {'allocs': allocs, 'cgen': cgen_of(d, k)}
            e.update(kw)
            return e
        for mv in ('1.13', '1.28', '1.38'):
            out.append(reqs.post_allocs({k1: ent(k1, one), k2: ent(k2, one)}, mv=mv,
                                        tag='POST@%s both' % mv))
            out.append(reqs.post_allocs({k1: ent(k1, {}), k2: ent(k2, one, project='p2')}, mv=mv,
                                        tag='POST@%s K1 empty K2 set' % mv))
        out.append(reqs.post_allocs({k1: ent(k1, one), k2: ent(k2, {P(1): {'VCPU': 5}})},
                                    mv='1.28', tag='POST second entry over capacity'))
        # a provider listed with nothing to allocate from it: not a write the schema admits, and
        # certainly not one that may leave a consumer record behind
        for mv in ('1.13', '1.38'):
            out.append(reqs.post_allocs({k1: ent(k1, {P(1): {}})}, mv=mv,
                                        tag='POST@%s empty resources object' % mv))
        out.append(reqs.post_allocs({k1: ent(k1, one), k2: ent(k2, {UNKNOWN_UUID: {'VCPU': 1}})},
                                    mv='1.28', tag='POST second entry unknown provider'))
        out.append(reqs.post_allocs({k1: ent(k1, one),
                                     k2: {'allocs': one, 'cgen': cgen_of(d, k2, stale=True)}},
                                    mv='1.28', tag='POST second entry stale generation'))
        return out

    def on_transition(self, pre, req, resp, run, post):
        v = world.oracle_c12(pre, req, resp, post)
        tag = req.get('tag')
        ver = reqs.ver(req.get('mv'))
        if world.is_alloc_write(req) and resp.status < 300:
            body = req['body']
            entries = {}
            if req['path'].startswith('/allocations/'):
                entries[req['path'].split('/')[2]] = body
            elif req['path'] == '/allocations':
                entries = body
            else:
                entries = body['allocations']
            for c, e in entries.items():
                if c not in post.consumers:
                    continue
                got = post.consumers[c]
                if ver >= (1, 8):
                    want = (e['project_id'], e['user_id'])
                    if (got['project'], got['user']) != want:
                        v.append(('c12-attrs:%s' % tag, 'consumer %s has project/user %s, the '
                                  'successful write named %s' % (
                                      c, (got['project'], got['user']), want)))
                else:
                    ok = [self.placeholder]
                    if c in pre.consumers:
                        ok.append((pre.consumers[c]['project'], pre.consumers[c]['user']))
                    if (got['project'], got['user']) not in ok:
                        v.append(('c12-placeholder:%s' % tag, 'consumer %s written below 1.8 has '
                                  'project/user %s, expected placeholder %s' % (
                                      c, (got['project'], got['user']), self.placeholder)))
                if ver >= (1, 38):
                    if got['type'] != e['consumer_type']:
                        v.append(('c12-type:%s' % tag, 'consumer %s has type %s, write named %s'
                                  % (c, got['type'], e['consumer_type'])))
                else:
                    was = pre.consumers[c]['type'] if c in pre.consumers else None
                    if got['type'] != was:
                        v.append(('c12-type-changed:%s' % tag, 'consumer %s type %s -> %s by a '
                                  'write below 1.38' % (c, was, got['type'])))
        # "updated when a later SUCCESSFUL write names a different project, user or type": a
        # rejected request leaves every consumer record as it was
        if resp.status >= 400 and pre.consumers != post.consumers:
            chg = sorted(c for c in set(pre.consumers) | set(post.consumers)
                         if pre.consumers.get(c) != post.consumers.get(c))
            v.append(('c12-rejected-changed:%s' % tag, 'request answered %s changed consumer '
                      'record(s) %s: %s -> %s' % (
                          resp.status, [c[-2:] for c in chg],
                          [pre.consumers.get(c) for c in chg],
                          [post.consumers.get(c) for c in chg])))
        # a consumer that does not exist can be created with consumer_generation null
        if tag in ('PUT@1.28 gen null',):
            c = req['path'].split('/')[2]
            free = 4 - pre.used().get((P(1), 'VCPU'), 0)
            if c not in pre.consumers and free >= 1 and resp.status != 204:
                v.append(('c12-null-refused', 'consumer %s does not exist, yet a write with '
                          'consumer_generation null was answered %s %s' % (
                              c, resp.status, resp.raw[:200])))
            if c in pre.consumers and resp.status != 409:
                v.append(('c12-null-accepted-for-existing', 'consumer exists, generation null '
                          'answered %s' % resp.status))
        return v

    def on_state(self, d, h, call):
        v = []
        from vp.http import R
        for k in self.consumers:
            resp, _ = call(R('GET', '/allocations/' + k))
            j = resp.json or {}
            has = bool(j.get('allocations'))
            if has != (k in d.consumers):
                v.append(('c12-api-view', 'GET /allocations/%s reports allocations=%s but '
                          'consumer row present=%s' % (k, has, k in d.consumers)))
            if has and k in d.consumers:
                c = d.consumers[k]
                if (j.get('project_id'), j.get('user_id'), j.get('consumer_type')) != (
                        c['project'], c['user'], c['type'] or 'unknown'):
                    v.append(('c12-api-attrs', 'GET /allocations/%s reports %s, rows say %s' % (
                        k, (j.get('project_id'), j.get('user_id'), j.get('consumer_type')), c)))
        return v


def run(ctx):
    ctx.budget = ctx.budget or (200 if ctx.quick else 1500)
    total = None
    configs = [(2, False, 1), (2, True, 1)] if ctx.quick else [(2, False, 2), (2, True, 2),
                                                               (3, False, 1)]
    for args in configs:
        st = explore_seq.explore(ctx, 'vp.props.c12', 'Spec', args, max_depth=40)
        if total is None:
            total = st
        else:
            for k in ('states', 'transitions', 'state_changing_transitions',
                      'rejected_transitions', 'determinism_reruns'):
                total[k] += st[k]
            total['fixpoint'] = total['fixpoint'] and st['fixpoint']
            total['samples'] = total['samples'] or st['samples']
            for t, c in st['outcomes'].items():
                dst = total['outcomes'].setdefault(t, {})
                for s, n in c.items():
                    dst[s] = dst.get(s, 0) + n
    total['never_collided'] = sorted(t for t, c in total['outcomes'].items() if len(c) == 1)
    fill(ctx, total, 'BFS to a fixpoint over allocation-writing/-deleting requests for a pool of '
         'consumers at microversions 1.7/1.8/1.12/1.13/1.28/1.38 incl. rejected variants, under '
         'default and overridden incomplete_consumer_* configuration; oracle INV-consumer (row '
         'exists iff >=1 allocation) + attribute rules + generation-null re-creation')
    ctx.coverage['configurations'] = [list(a) for a in configs]


def replay(ctx, data):
    return explore_seq.replay(ctx, data)
