"""C08 -- stored records never dangle; entities in use cannot be removed (E-seq)."""
from vp import explore_seq, reqs, world
from vp.names import K, P
from vp.props.c01 import fill


class Spec(object):
    def __init__(self, nconsumers=2):
        self.consumers = tuple(K(i) for i in range(1, nconsumers + 1))

    def starts(self):
        four = {'total': 4}
        pop = [reqs.mk_rp(1), reqs.mk_rp(2, parent=P(1)), reqs.post_class(world.CUSTOM_CLASS),
               reqs.put_trait(world.CUSTOM_TRAIT),
               reqs.put_invs(P(1), 0, {'VCPU': four, world.CUSTOM_CLASS: four}),
               reqs.put_invs(P(2), 0, {'VCPU': four}),
               reqs.put_traits(P(1), 1, [world.CUSTOM_TRAIT])]
        used = pop + [reqs.put_alloc(K(1), {P(1): {'VCPU': 1}}),
                      reqs.put_alloc(K(2), {P(1): {world.CUSTOM_CLASS: 1}, P(2): {'VCPU': 1}})]
        return [('empty', []), ('populated', pop), ('in-use', used)]

    def canon(self, d):
        return d.key(gens=False)

    def alphabet(self, d):
        return world.general_alphabet(d, consumers=self.consumers)

    def on_transition(self, pre, req, resp, run, post):
        return world.oracle_c08(pre, req, resp, post)

    def on_state(self, d, h, call):
        return []


def conc_scenarios():
    """DELETE of an entity racing with a request that starts using it."""
    four = {'total': 4}
    X, T = world.CUSTOM_CLASS, world.CUSTOM_TRAIT
    base = [reqs.mk_rp(1), reqs.mk_rp(2), reqs.post_class(X), reqs.put_trait(T),
            reqs.put_invs(P(1), 0, {'VCPU': four})]
    pairs = [
        ('DELETE class || PUT inventories using it',
         reqs.del_class(X), reqs.put_invs(P(1), 1, {'VCPU': four, X: four})),
        ('DELETE class || POST inventory of it', reqs.del_class(X), reqs.post_inv(P(2), X, four)),
        ('DELETE trait || PUT provider traits using it',
         reqs.del_trait(T), reqs.put_traits(P(1), 1, [T])),
        ('DELETE provider || PUT inventories on it',
         reqs.del_rp(P(2)), reqs.put_invs(P(2), 0, {'VCPU': four})),
        ('DELETE provider || PUT allocations on it',
         reqs.del_rp(P(1)), reqs.put_alloc(K(1), {P(1): {'VCPU': 1}})),
        ('DELETE provider || PUT provider traits', reqs.del_rp(P(2)),
         reqs.put_traits(P(2), 0, [T])),
        ('DELETE provider || PUT aggregates', reqs.del_rp(P(2)),
         reqs.put_aggs(P(2), 0, [world.A(1)])),
        ('DELETE provider || PUT aggregates@1.18', reqs.del_rp(P(2)),
         reqs.put_aggs(P(2), None, [world.A(1)], mv='1.18')),
        ('DELETE provider || POST child under it', reqs.del_rp(P(2)),
         reqs.mk_rp(3, parent=P(2))),
        ('DELETE inventory || PUT allocations on it',
         reqs.del_inv(P(1), 'VCPU'), reqs.put_alloc(K(1), {P(1): {'VCPU': 1}})),
        ('DELETE inventories || POST allocations on it',
         reqs.del_invs(P(1)), reqs.post_allocs({K(1): {'allocs': {P(1): {'VCPU': 1}}}})),
        ('PUT inventories dropping class || PUT allocations on it',
         reqs.put_invs(P(1), 1, {}), reqs.put_alloc(K(1), {P(1): {'VCPU': 1}})),
        ('DELETE allocations || DELETE provider', reqs.del_alloc(K(9)), reqs.del_rp(P(1))),
        # removal of a consumer's allocations (and of its record) racing with a replacement
        ('DELETE allocations || PUT allocations of that consumer (own generation)',
         reqs.del_alloc(K(9)), reqs.put_alloc(K(9), {P(1): {'VCPU': 2}}, cgen=1)),
        ('DELETE allocations || PUT allocations of that consumer @1.12',
         reqs.del_alloc(K(9)), reqs.put_alloc(K(9), {P(1): {'VCPU': 2}}, mv='1.12')),
        ('DELETE allocations || POST allocations moving that consumer',
         reqs.del_alloc(K(9)),
         reqs.post_allocs({K(9): {'allocs': {}, 'cgen': 1},
                           K(1): {'allocs': {P(1): {'VCPU': 1}}}})),
        ('PUT allocations clear || PUT allocations of that consumer @1.12',
         reqs.put_alloc(K(9), {}, cgen=1), reqs.put_alloc(K(9), {P(1): {'VCPU': 2}}, mv='1.12')),
    ]
    out = []
    for name, a, b in pairs:
        a, b = dict(a), dict(b)
        a['tag'] = name.split(' || ')[0]
        b['tag'] = name.split(' || ')[1]
        setup = base
        if 'allocations of that consumer' in name or 'moving that consumer' in name:
            setup = base + [reqs.put_alloc(K(9), {P(1): {'VCPU': 1}}),
                            reqs.put_alloc(K(8), {P(1): {'VCPU': 1}})]
        elif 'DELETE allocations' in name:
            setup = base + [reqs.put_alloc(K(9), {P(1): {'VCPU': 1}})]
        out.append({'name': name, 'setup': setup, 'requests': [a, b], 'bound': None,
                    'max_exec': 4000})
    return out


def run(ctx):
    if ctx.quick:
        depth = 3
        ctx.budget = ctx.budget or 170
    else:
        depth = 5
        ctx.budget = ctx.budget or 1800
    st = explore_seq.explore(ctx, 'vp.props.c08', 'Spec', (2,), max_depth=depth)
    # second part: every interleaving of a DELETE with a request that starts using the entity
    from vp import explore_conc
    sc = conc_scenarios()
    tot = explore_conc.run_scenarios(ctx, 'C08', sc)
    fill(ctx, st, 'BFS from the empty service over creation, replacement and deletion of '
         'providers (root/child), inventories (VCPU + a custom class), custom class, custom trait, '
         'aggregates, allocations of two consumers, reshaper removing a class; oracle: INV-ref on '
         'the raw rows after every request + refusal/cascade semantics of every DELETE; plus ALL '
         'interleavings (transaction granularity) of %d pairs "DELETE of an entity || request that '
         'starts using it", judged by INV-ref/INV-forest on the final rows and serial equivalence'
         % len(sc))
    ctx.coverage['concurrent_part'] = {
        'scenarios': tot['scenarios'], 'states': tot['states'], 'transitions': tot['transitions'],
        'schedules_executed': tot['executions'], 'outcome_vectors': tot['outcome_vectors'],
        'notes_not_judged': tot['notes']}
    ctx.coverage['states'] += tot['states']
    ctx.coverage['transitions'] += tot['transitions']
    ctx.coverage['traces_validated_against_impl'] += tot['executions']


def replay(ctx, data):
    if data.get('engine') == 'conc':
        from vp import explore_conc
        return explore_conc.replay(ctx, data)
    return explore_seq.replay(ctx, data)
