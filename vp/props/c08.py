"""C08 -- stored records never dangle; entities in use cannot be removed (E-seq)."""
from vp import explore_seq, reqs, world
from vp.names import K, P
from vp.props.c01 import fill


class Spec(object):
    def __init__(self, nconsumers=2):
        self.consumers = tuple(K(i) for i in range(1, nconsumers + 1))

    def starts(self):
        four = {'total': 4}
        pop = [reqs.mk_rp(1), reqs.mk_rp(2, parent=P(1)), reqs.post_class(world.CUSTOM_CLASS),
               reqs.put_trait(world.CUSTOM_TRAIT),
               reqs.put_invs(P(1), 0, {'VCPU': four, world.CUSTOM_CLASS: four}),
               reqs.put_invs(P(2), 0, {'VCPU': four}),
               reqs.put_traits(P(1), 1, [world.CUSTOM_TRAIT])]
        used = pop + [reqs.put_alloc(K(1), {P(1): {'VCPU': 1}}),
                      reqs.put_alloc(K(2), {P(1): {world.CUSTOM_CLASS: 1}, P(2): {'VCPU': 1}})]
        return [('empty', []), ('populated', pop), ('in-use', used)]

    def canon(self, d):
        return d.key(gens=False)

    def alphabet(self, d):
        return world.general_alphabet(d, consumers=self.consumers)

    def on_transition(self, pre, req, resp, run, post):
        return world.oracle_c08(pre, req, resp, post)

    def on_state(self, d, h, call):
        return []


def run(ctx):
    if ctx.quick:
        depth = 3
        ctx.budget = ctx.budget or 170
    else:
        depth = 6
        ctx.budget = ctx.budget or 1500
    st = explore_seq.explore(ctx, 'vp.props.c08', 'Spec', (2,), max_depth=depth)
    fill(ctx, st, 'BFS from the empty service over creation, replacement and deletion of '
         'providers (root/child), inventories (VCPU + a custom class), custom class, custom trait, '
         'aggregates, allocations of two consumers, reshaper removing a class; oracle: INV-ref on '
         'the raw rows after every request + refusal/cascade semantics of every DELETE')


def replay(ctx, data):
    return explore_seq.replay(ctx, data)
