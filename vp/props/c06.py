"""C06 -- consumer generations prevent lost updates of a consumer's allocations (E-conc)."""
import itertools

from vp import explore_conc, reqs
from vp.names import K, P
from vp.props.c05 import fill

INV = {'total': 10}


def states():
    base = [reqs.mk_rp(1), reqs.mk_rp(2), reqs.put_invs(P(1), 0, {'VCPU': INV}),
            reqs.put_invs(P(2), 0, {'VCPU': INV})]
    sb = base + [reqs.put_alloc(K(1), {P(1): {'VCPU': 1}})]
    sc = sb + [reqs.put_alloc(K(2), {P(1): {'VCPU': 1}})]
    # (name, setup, generation of K1 or None, generation of K2 or None, generation of P1)
    return [('K1 absent', base, None, None, 1), ('K1 present', sb, 1, None, 2),
            ('K1,K2 present', sc, 1, 1, 3)]


def ops(g1, g2, pg):
    stale = (g1 - 1) if g1 else 5
    o = [
        reqs.put_alloc(K(1), {P(1): {'VCPU': 1}}, mv='1.28', cgen=None, tag='PUT K1 gen=null'),
        reqs.put_alloc(K(1), {P(1): {'VCPU': 2}}, mv='1.34', cgen=g1, tag='PUT K1 gen=cur P1:2'),
        reqs.put_alloc(K(1), {P(2): {'VCPU': 3}}, mv='1.28', cgen=g1, tag='PUT K1 gen=cur P2:3'),
        reqs.put_alloc(K(1), {P(1): {'VCPU': 4}}, mv='1.28', cgen=stale, tag='PUT K1 gen=stale'),
        reqs.put_alloc(K(1), {P(1): {'VCPU': 5}}, mv='1.38', cgen=g1, project='p2', user='u2',
                       ctype='MIGRATION', tag='PUT K1 gen=cur other project/type'),
        reqs.put_alloc(K(1), {}, mv='1.28', cgen=g1, tag='PUT K1 gen=cur clear'),
        reqs.post_allocs({K(1): {'allocs': {P(1): {'VCPU': 6}}, 'cgen': g1},
                          K(2): {'allocs': {P(1): {'VCPU': 1}}, 'cgen': g2}}, mv='1.28',
                         tag='POST K1,K2 gen=cur'),
        reqs.post_allocs({K(1): {'allocs': {}, 'cgen': g1},
                          K(2): {'allocs': {P(2): {'VCPU': 2}}, 'cgen': g2}}, mv='1.38',
                         tag='POST K1 empty,K2 gen=cur'),
        reqs.reshaper({P(1): (pg, {'VCPU': INV})},
                      {K(1): {'allocs': {P(1): {'VCPU': 7}}, 'cgen': g1}}, tag='reshaper K1 gen=cur'),
        reqs.del_alloc(K(1), tag='DELETE K1'),
        reqs.put_alloc(K(1), {P(1): {'VCPU': 8}}, mv='1.12', tag='PUT K1 @1.12 (no generation)'),
    ]
    return o


QUICK_PAIRS = [(0, 0), (0, 1), (1, 1), (1, 2), (1, 4), (1, 5), (1, 6), (1, 8), (1, 9), (0, 6),
               (6, 6), (6, 7), (5, 9), (8, 8), (1, 3), (0, 9), (7, 1), (2, 10), (8, 10), (6, 10)]


def scenarios(quick):
    out = []
    for name, setup, g1, g2, pg in states():
        o = ops(g1, g2, pg)
        if quick:
            pairs = QUICK_PAIRS if name != 'K1,K2 present' else [(1, 6), (6, 6), (6, 7)]
        else:
            pairs = list(itertools.combinations_with_replacement(range(len(o)), 2))
        for a, b in pairs:
            out.append({'name': '%s: %s || %s' % (name, o[a]['tag'], o[b]['tag']),
                        'setup': setup, 'requests': [o[a], o[b]], 'bound': None,
                        'max_exec': 6000})
        if name == 'K1 present':
            # (1, 5, 0): a writer, a clearing request and a re-creating one -- the consumer record
            # is removed and created again under the same uuid (and reaches the same generation
            # number) while the first writer is in flight
            triples = [(1, 5, 0)] if quick else [
                (1, 5, 0), (1, 2, 9), (0, 1, 6), (1, 5, 8), (1, 4, 6), (6, 7, 9), (1, 1, 1),
                (0, 0, 9), (1, 6, 10), (4, 7, 0), (8, 5, 0)]
            for a, b, c in triples:
                out.append({'name': '%s: %s || %s || %s' % (name, o[a]['tag'], o[b]['tag'],
                                                            o[c]['tag']),
                            'setup': setup, 'requests': [o[a], o[b], o[c]],
                            'bound': 1 if quick else 2, 'max_exec': 8000})
    return out


def run(ctx):
    ctx.budget = ctx.budget or (360 if ctx.quick else 2400)
    sc = scenarios(ctx.quick)
    tot = explore_conc.run_scenarios(ctx, 'C06', sc)
    fill(ctx, tot, len(sc), 'three start states (K1 absent / present / K1 and K2 present) x pairs '
         '(%s) of 11 allocation-writing operations touching consumer K1 (PUT with generation null / '
         'current / stale, other provider, other project+type, clear; POST /allocations with K1 and '
         'K2; reshaper; DELETE as a disturbing third party; a generation-less 1.12 write) at '
         '1.12/1.28/1.34/1.38 x ALL interleavings at top-level-transaction granularity%s' % (
             'selected %d per state' % len(QUICK_PAIRS) if ctx.quick else 'all 66 with repetition',
             '; plus the writer || clear || re-create triple with preemption bound 1' if ctx.quick
             else '; plus 11 triples with preemption bound 2'))


def replay(ctx, data):
    return explore_conc.replay(ctx, data)
