"""C18 -- a crash at any point leaves a state satisfying the core invariants (E-crash)."""
import collections

from vp import faults
from vp.boot import make_base_image
from vp.workers import Pool


def run(ctx):
    ctx.budget = ctx.budget or (240 if ctx.quick else 1800)
    corpus = [e for e in faults.corpus()]
    base = make_base_image()
    pool = Pool(ctx.workers, 'vp.faults', 'make_worker', (base,))
    ctx.level = 'fault_enumeration'
    survivors = collections.defaultdict(set)
    outcomes = collections.Counter()
    stray = collections.Counter()
    aux = collections.Counter()
    evaluations = 0
    samples = []
    try:
        bl = list(pool.map([('baseline', e) for e in corpus]))
        tasks = []
        for e, b in zip(corpus, bl):
            for k in range(b['nstmts']):
                tasks.append(('crash', e, ('before-stmt', k)))
                tasks.append(('crash', e, ('after-stmt', k)))
            for j in range(b['ntx'] + 2):
                tasks.append(('crash', e, ('before-commit', j)))
            tasks.append(('crash', e, ('after-last-commit', 0)))
        for t, res in zip(tasks, pool.map(tasks, chunksize=8)):
            if res['outcome'] == 'not-reached':
                continue
            evaluations += 1
            e = t[1]
            survivors[e['name']].add(res['survivor_key'])
            outcomes[res['outcome']] += 1
            if res['stray_consumers']:
                stray[e['name']] += 1
            if res['aux_new']:
                aux[e['name']] += 1
            if len(samples) < 5 and res['outcome'] == 'pre' and (res['stray_consumers'] or
                                                                  res['aux_new']):
                samples.append({'entry': e['name'], 'crash_point': list(t[2]),
                                'survivor': res['outcome'],
                                'consumers_without_allocations': res['stray_consumers'],
                                'new_auxiliary_rows': res['aux_new']})
            for sig, msg in res['viol']:
                ctx.violation(sig, msg, {'engine': 'crash', 'entry': e, 'point': list(t[2])})
            if ctx.out_of_time():
                ctx.cap('budget exhausted after %d of %d crash points' % (evaluations,
                                                                           len(tasks)))
                break
    finally:
        pool.close()
    nsurv = sum(len(v) for v in survivors.values())
    ctx.coverage.update({
        'evaluations': evaluations,
        'distinct_nontrivial': nsurv,
        'rule': 'write corpus of %d requests / start-up synchronisations x every crash point '
                '(before and after each SQL statement, before each commit); the process dies '
                '(BaseException from the statement/commit hook, nothing after the point reaches '
                'the database); the survivor is recovered by SQLite from a copy of file + rollback '
                'journal taken at the crash instant and must equal the file left after unwinding; '
                'distinct_nontrivial = distinct survivors over all entries' % len(corpus),
        'samples': samples or [{'note': 'no sample'}],
        'survivors_per_entry': {k: len(v) for k, v in survivors.items()},
        'survivor_classes': dict(outcomes),
        'points_leaving_a_consumer_without_allocations': dict(stray),
        'points_leaving_new_project_user_type_rows': dict(aux),
        'exhaustive': not ctx.caps,
    })
    ctx.assumptions += [
        'the DBMS rolls back the transaction in flight (SQLite hot-journal recovery, really '
        'performed on a copy taken at the crash instant)',
        'placement, oslo.db, oslo.middleware and webob catch Exception only, so no clean-up code '
        'of the dying process reaches the database (checked by the unwound == recovered test)']


def replay(ctx, data):
    base = make_base_image()
    w = faults.FaultWorker(base)
    res = faults.judge_crash(w, data['entry'], tuple(data['point']))
    for sig, msg in res['viol']:
        if sig == data['signature']:
            return False, 'reproduced: %s' % msg
    return True, 'survivor %s; signatures %s' % (res['outcome'], [v[0] for v in res['viol']])
