"""C17 -- database faults end in an exactly-once retry or a clean failure (E-fault)."""
import collections
import itertools

from vp import faults
from vp.boot import make_base_image
from vp.workers import Pool


def run(ctx):
    ctx.budget = ctx.budget or (240 if ctx.quick else 2400)
    corpus = faults.corpus()
    base = make_base_image()
    pool = Pool(ctx.workers, 'vp.faults', 'make_worker', (base,))
    ctx.level = 'fault_enumeration'
    outcomes = collections.Counter()
    per_kind = collections.defaultdict(collections.Counter)
    retried = collections.Counter()
    evaluations = 0
    distinct = set()
    samples = []
    try:
        bl = list(pool.map([('baseline', e) for e in corpus]))
        for e, b in zip(corpus, bl):
            if e['ok'] != (b['status'] < 300):
                from vp.check import HarnessError
                raise HarnessError('corpus entry %s: fault-free status %s, expected %s' % (
                    e['name'], b['status'], 'success' if e['ok'] else 'rejection'))
        tasks = []
        for e, b in zip(corpus, bl):
            for k in range(b['nstmts']):
                for kind in faults.FAULT_KINDS:
                    tasks.append(('fault', e, [(k, kind)]))
        single = len(tasks)
        results = list(zip(tasks, pool.map(tasks, chunksize=8)))
        if not ctx.quick:
            # pairs, then triples: each further fault extends a run whose earlier faults were all
            # retried successfully (the request goes on), and strikes at every later statement of
            # that faulted run
            layer = results
            for depth in (2, 3):
                nxt = []
                for t, res in layer:
                    if sum(1 for _, kd in t[2] if kd == 'dup-key') >= 2:
                        # the model of a duplicate key plants the racing creator's row; a second
                        # planted row may name ids handed out inside the first, rolled-back
                        # attempt -- not a state a DBMS can reach, so such runs are not extended
                        continue
                    if res['outcome'] == 'success' and res.get('reexecuted') and not res['viol']:
                        k1 = t[2][-1][0]
                        kinds = faults.FAULT_KINDS if depth == 2 else ('deadlock-stmt', 'dup-key',
                                                                        'conn')
                        for k2 in range(k1 + 1, res['nstmts_faulted']):
                            for kind2 in kinds:
                                nxt.append(('fault', t[1], list(t[2]) + [(k2, kind2)]))
                layer = list(zip(nxt, pool.map(nxt, chunksize=8)))
                results = results + layer
                tasks = tasks + nxt
        for t, res in results:
            if res['outcome'] == 'not-applicable':
                continue
            evaluations += 1
            e = t[1]
            kinds = '+'.join(k for _, k in t[2])
            outcomes[res['outcome']] += 1
            per_kind[kinds][res['outcome']] += 1
            distinct.add((e['name'], kinds, res['fired'][0][3], res['outcome']))
            if res.get('reexecuted') and res['outcome'] == 'success' and res.get('retry_fn'):
                retried[res['retry_fn']] += 1
            if len(samples) < 6 and res.get('reexecuted'):
                samples.append({'entry': e['name'], 'faults': t[2], 'fired': res['fired'],
                                'outcome': res['outcome'], 'status': res['status'],
                                'statements_reexecuted': res['reexecuted']})
            for sig, msg in res['viol']:
                ctx.violation(sig, msg, {'engine': 'fault', 'entry': e, 'faults': t[2]})
            if ctx.out_of_time():
                ctx.cap('budget exhausted after %d of %d fault runs' % (evaluations, len(tasks)))
                break
    finally:
        pool.close()
    ctx.coverage.update({
        'evaluations': evaluations,
        'distinct_nontrivial': len(distinct),
        'rule': 'corpus of %d write requests / start-up synchronisations (every write route, in a '
                'state where it succeeds and, for the multi-step ones, in one where it is rejected '
                'after its write transaction started) x every statement index x every fault kind '
                '%s%s; a case is distinct by (corpus entry, fault kinds, faulted statement, '
                'outcome) and non-trivial when a fault actually fired' % (
                    len(corpus), list(faults.FAULT_KINDS),
                    '' if ctx.quick else ' + pairs and triples (every further fault extends a run whose '
                    'earlier faults were retried successfully and strikes at every later statement '
                    'of that faulted run; third faults: deadlock-stmt, dup-key, conn)'),
        'samples': samples or [{'note': 'no retried run sampled'}],
        'corpus': [{'name': e['name'], 'statements': b['nstmts'], 'transactions': b['ntx'],
                    'fault_free_status': b['status']} for e, b in zip(corpus, bl)],
        'outcomes': dict(outcomes),
        'outcomes_per_fault_kind': {k: dict(v) for k, v in per_kind.items()},
        'successful_retries_inside': dict(retried),
        'single_fault_runs_planned': single,
        'exhaustive': not ctx.caps,
    })
    ctx.assumptions += [
        'faults are injected above the driver (SQLAlchemy before_cursor_execute), so oslo.db\'s '
        'driver-specific error translation is not exercised',
        'deadlock-txn models a DBMS that rolls the whole transaction back and silently starts a '
        'new one (InnoDB); deadlock-stmt models a lock-wait timeout',
        'sleeping between retries is disabled (oslo_db.api.time)']


def replay(ctx, data):
    base = make_base_image()
    w = faults.FaultWorker(base)
    res = faults.judge_fault(w, data['entry'], [tuple(f) for f in data['faults']])
    for sig, msg in res['viol']:
        if sig == data['signature']:
            return False, 'reproduced: %s' % msg
    return True, 'outcome %s; signatures %s' % (res['outcome'], [v[0] for v in res['viol']])
