"""C14 -- each microversion exposes exactly its documented surface.

E-enum over a closed table.

Part A  {no header, 1.0..1.39, latest, 1.40, 0.9, 2.0, malformed x4, other-service header,
        mixed header} x every route template of ROUTE_DECLARATIONS (+ an unknown path)
        x {GET, POST, PUT, DELETE, PATCH, HEAD, OPTIONS}; every request carries a body / query
        that the api-ref documents as valid for that version and addresses existing entities
        of a populated state, so that a 404/405 can only be a statement about the route/method.
Part B  152 probes for the versioned features of rest_api_version_history.rst / api-ref
        (every version 1.1 .. 1.39 has at least one), each evaluated at no header, 1.0..1.39
        and latest and judged by a presence predicate: present exactly inside the documented
        version window; where the documentation names the rejection (404 route, 405 method,
        400 body/query) that status is demanded outside it.
Part H  7 error responses (400/404/406/409/415) at every accepted version: status + headers.
Part T  the declared routing table and version range against the documented ones.
Every response to an accepted version is checked for `openstack-api-version: placement X.Y`
naming the applied version and for `Vary` listing that header.  quick: one populated state;
thorough: three.

Oracles are the tables INTRODUCED / normal_status() / FEATURES below, written from
/repo/placement/rest_api_version_history.rst and /repo/api-ref/source/*.inc, parameters.yaml.
"""
import json
import re

from vp import enum as vpenum
from vp.check import HarnessError
from vp.http import R
from vp.names import A, K, P

MINV, MAXV = (1, 0), (1, 39)
EXACT = [(1, i) for i in range(40)]
METHODS = ('GET', 'POST', 'PUT', 'DELETE', 'PATCH', 'HEAD', 'OPTIONS')
HDR = 'openstack-api-version'


def vstr(v):
    return '%d.%d' % v


# ---------------------------------------------------------------------------------------------
# version values
# ---------------------------------------------------------------------------------------------
def _vv(vid, cls, applied, mv=None, hdr=None):
    return {'id': vid, 'cls': cls, 'applied': applied, 'mv': mv, 'hdr': hdr}


VV = [_vv('none', 'none', MINV)]
VV += [_vv(vstr(v), 'exact', v, mv=vstr(v)) for v in EXACT]
VV += [_vv('latest', 'latest', MAXV, mv='latest')]
VV += [_vv(x, 'outside', None, mv=x) for x in ('1.40', '0.9', '2.0')]
VV += [_vv('malformed:' + x, 'malformed', None, mv=x) for x in ('foo', '1', '1.x', '1.5.1')]
# API-SIG microversion specification (referenced by api-ref root.inc): a header naming only
# another service requests nothing from placement; a header may list several services.
VV += [_vv('other-service', 'other', MINV, hdr='compute 2.1'),
       _vv('mixed', 'mixed', (1, 7), hdr='compute 2.1, placement 1.7')]
VV_BY_ID = {x['id']: x for x in VV}
VV_ACCEPTED_B = [x['id'] for x in VV if x['cls'] in ('none', 'exact', 'latest')]


# every request is made by a caller holding the admin and service roles (POST /reshaper is
# service-only by default policy; authorisation is C16's subject, not this check's)
CALLER = {'token': 'admin', 'roles': 'admin,service'}


def req(vv, method, path, body=None, query=None, **kw):
    """Request at version value vv."""
    kw.setdefault('caller', CALLER)
    if vv['hdr'] is not None:
        return R(method, path, body, mv=None, query=query,
                 headers={'OpenStack-API-Version': vv['hdr']}, **kw)
    return R(method, path, body, mv=vv['mv'], query=query, **kw)


# ---------------------------------------------------------------------------------------------
# populated states (declarative; the expected sets used by the predicates are computed from
# this description, never from the service)
# ---------------------------------------------------------------------------------------------
TA, TB, TC = 'HW_CPU_X86_AVX', 'HW_CPU_X86_SSE', 'HW_NIC_SRIOV'
CTRAIT = 'CUSTOM_C14_TRAIT'           # custom trait, not associated (deletable)
CCLASS = 'CUSTOM_C14_CLASS'           # custom class, no inventory (deletable)
NEWCLASS = 'CUSTOM_C14_NEWCLASS'
NEWTRAIT = 'CUSTOM_C14_NEWTRAIT'
PJ1, PJ2, U1, U2 = 'c14-project-1', 'c14-project-2', 'c14-user-1', 'c14-user-2'
PJ9, U9 = 'c14-project-9', 'c14-user-9'
KNEW = K(9)                            # consumer that never exists in a state
PNEW = P(99)                           # provider that never exists in a state
A1, A2, A3 = A(1), A(2), A(3)
VF = 'SRIOV_NET_VF'


def _prov(i, parent=None, inv=None, traits=(), aggs=()):
    return {'uuid': P(i), 'name': 'c14-rp%d' % i, 'parent': parent and P(parent),
            'inv': dict(inv or {}), 'traits': sorted(traits), 'aggs': sorted(aggs)}


def state_spec(k):
    """k = 0: base; 1: more roots / consumers / trees; 2: deeper tree, more inventory."""
    provs = [
        _prov(1, inv={'VCPU': 8, 'MEMORY_MB': 1024}, traits=[TA], aggs=[A1]),
        _prov(2, inv={'VCPU': 8, 'MEMORY_MB': 1024}, traits=[TA, TB], aggs=[A1, A2]),
        _prov(3, inv={'VCPU': 8}, traits=[TB], aggs=[A2]),
        _prov(4, parent=1, inv={VF: 4}, traits=[TC]),
        _prov(5),
    ]
    cons = [
        {'uuid': K(1), 'alloc': {P(1): {'VCPU': 1}}, 'project': PJ1, 'user': U1,
         'type': 'INSTANCE'},
        {'uuid': K(2), 'alloc': {P(2): {'VCPU': 2, 'MEMORY_MB': 64}}, 'project': PJ1,
         'user': U2, 'type': 'MIGRATION'},
    ]
    if k == 1:
        provs += [_prov(6, inv={'VCPU': 4}, traits=[TA], aggs=[A1, A3]),
                  _prov(7, parent=2, inv={VF: 2}, traits=[TC])]
        cons += [{'uuid': K(3), 'alloc': {P(6): {'VCPU': 1}}, 'project': PJ2, 'user': U1,
                  'type': 'INSTANCE'}]
    if k == 2:
        provs[2] = _prov(3, inv={'VCPU': 8, 'MEMORY_MB': 512}, traits=[TB], aggs=[A2])
        provs[4] = _prov(5, inv={'DISK_GB': 100}, aggs=[A3])
        provs += [_prov(8, parent=4, inv={VF: 8}, traits=[TC])]
        cons += [{'uuid': K(4), 'alloc': {P(8): {VF: 1}}, 'project': PJ2, 'user': U2,
                  'type': 'INSTANCE'}]
    return {'k': k, 'providers': provs, 'consumers': cons}


def setup_requests(spec):
    """Setup, all at 1.39."""
    out = [R('PUT', '/traits/' + CTRAIT), R('PUT', '/resource_classes/' + CCLASS)]
    gen = {}
    for p in spec['providers']:
        body = {'name': p['name'], 'uuid': p['uuid']}
        if p['parent']:
            body['parent_provider_uuid'] = p['parent']
        out.append(R('POST', '/resource_providers', body))
        g = 0
        if p['inv']:
            out.append(R('PUT', '/resource_providers/%s/inventories' % p['uuid'], {
                'resource_provider_generation': g,
                'inventories': {rc: {'total': t} for rc, t in p['inv'].items()}}))
            g += 1
        if p['traits']:
            out.append(R('PUT', '/resource_providers/%s/traits' % p['uuid'], {
                'resource_provider_generation': g, 'traits': p['traits']}))
            g += 1
        if p['aggs']:
            out.append(R('PUT', '/resource_providers/%s/aggregates' % p['uuid'], {
                'resource_provider_generation': g, 'aggregates': p['aggs']}))
            g += 1
        gen[p['uuid']] = g
    if spec['k'] == 1:      # shift a generation so that it is not the "natural" one
        out.append(R('PUT', '/resource_providers/%s/traits' % P(3), {
            'resource_provider_generation': gen[P(3)], 'traits': [TB]}))
    for c in spec['consumers']:
        out.append(R('PUT', '/allocations/' + c['uuid'], {
            'allocations': {rp: {'resources': res} for rp, res in c['alloc'].items()},
            'project_id': c['project'], 'user_id': c['user'], 'consumer_generation': None,
            'consumer_type': c['type']}))
    return out


class S(object):
    """Facts about a state, computed from the declarative spec (+ generations read back)."""

    def __init__(self, spec, pgen=None, cgen=None):
        self.spec = spec
        self.k = spec['k']
        self.prov = {p['uuid']: p for p in spec['providers']}
        self.cons = {c['uuid']: c for c in spec['consumers']}
        self.pgen = pgen or {}
        self.cgen = cgen or {}
        self.all = frozenset(self.prov)

    def root(self, u):
        while self.prov[u]['parent']:
            u = self.prov[u]['parent']
        return u

    def tree(self, u):
        r = self.root(u)
        return frozenset(x for x in self.prov if self.root(x) == r)

    def used(self, u, rc):
        return sum(c['alloc'].get(u, {}).get(rc, 0) for c in self.cons.values())

    def having(self, rc, amount=1):
        return frozenset(u for u, p in self.prov.items()
                         if rc in p['inv'] and p['inv'][rc] - self.used(u, rc) >= amount)

    def with_traits(self, *traits):
        return frozenset(u for u, p in self.prov.items() if set(traits) <= set(p['traits']))

    def with_any_trait(self, *traits):
        return frozenset(u for u, p in self.prov.items() if set(traits) & set(p['traits']))

    def in_any_agg(self, *aggs):
        return frozenset(u for u, p in self.prov.items() if set(aggs) & set(p['aggs']))

    def singles(self, provs):
        """allocation candidates made of one provider each"""
        return frozenset(frozenset([u]) for u in provs)

    def nested_pairs(self):
        """candidates for VCPU:1 + SRIOV_NET_VF:1: VCPU from the root, VF from a descendant"""
        out = set()
        for r in self.having('VCPU'):
            for d in self.tree(r):
                if d in self.having(VF):
                    out.add(frozenset([r, d]))
        return frozenset(out)


# ---------------------------------------------------------------------------------------------
# version-dependent request bodies, from api-ref/source/allocations.inc, aggregates.inc,
# reshaper.inc, resource_class.inc
# ---------------------------------------------------------------------------------------------
def alloc_body(v, allocs, project=PJ9, user=U9, cgen=None, ctype='INSTANCE'):
    """PUT /allocations/{consumer}: array form (1.0-1.11, project/user from 1.8), dict form
    from 1.12, consumer_generation from 1.28, consumer_type from 1.38."""
    if v < (1, 12):
        body = {'allocations': [{'resource_provider': {'uuid': rp}, 'resources': res}
                                for rp, res in sorted(allocs.items())]}
        if v >= (1, 8):
            body.update(project_id=project, user_id=user)
        return body
    body = {'allocations': {rp: {'resources': res} for rp, res in allocs.items()},
            'project_id': project, 'user_id': user}
    if v >= (1, 28):
        body['consumer_generation'] = cgen
    if v >= (1, 38):
        body['consumer_type'] = ctype
    return body


def post_alloc_body(v, consumer, allocs, cgen=None, **kw):
    """POST /allocations (1.13 -): dict keyed by consumer, always dict form."""
    return {consumer: alloc_body(max(v, (1, 13)), allocs, cgen=cgen, **kw)}


def agg_body(v, aggs, gen):
    """PUT aggregates: list (1.1-1.18), object with generation (1.19 -)."""
    if v < (1, 19):
        return list(aggs)
    return {'aggregates': list(aggs), 'resource_provider_generation': gen}


def reshaper_body(s, v, with_allocations=True):
    """Re-state P1's inventory (doubling VCPU) and K1's allocation on it."""
    v = max(v, (1, 30))
    p = s.prov[P(1)]
    inv = {rc: {'total': t} for rc, t in p['inv'].items()}
    inv['VCPU'] = {'total': 16}
    body = {'inventories': {P(1): {'resource_provider_generation': s.pgen[P(1)],
                                   'inventories': inv}},
            'allocations': {}}
    if with_allocations:
        c = s.cons[K(1)]
        a = {'allocations': {rp: {'resources': res} for rp, res in c['alloc'].items()},
             'project_id': c['project'], 'user_id': c['user'],
             'consumer_generation': s.cgen[K(1)]}
        if v >= (1, 38):
            a['consumer_type'] = c['type']
        body['allocations'][K(1)] = a
    return body


# ---------------------------------------------------------------------------------------------
# Part A: route x method table
# ---------------------------------------------------------------------------------------------
UNKNOWN_ROUTE = '/c14_no_such_route'
# (route template, method) -> version that introduced it.  Sources: version history sections
# 1.0 (routes list), 1.1, 1.2, 1.5, 1.6, 1.9, 1.10, 1.13, 1.30 and the "available starting
# from version" notes of the api-ref sections.
INTRODUCED = {
    ('/', 'GET'): (1, 0),                                        # root.inc
    ('', 'GET'): (1, 0),                                         # root.inc (mounted w/o slash)
    ('/resource_classes', 'GET'): (1, 2),                        # history 1.2
    ('/resource_classes', 'POST'): (1, 2),
    ('/resource_classes/{name}', 'GET'): (1, 2),
    ('/resource_classes/{name}', 'PUT'): (1, 2),                 # rename 1.2-1.6, create 1.7-
    ('/resource_classes/{name}', 'DELETE'): (1, 2),
    ('/resource_providers', 'GET'): (1, 0),                      # history 1.0
    ('/resource_providers', 'POST'): (1, 0),
    ('/resource_providers/{uuid}', 'GET'): (1, 0),
    ('/resource_providers/{uuid}', 'PUT'): (1, 0),
    ('/resource_providers/{uuid}', 'DELETE'): (1, 0),
    ('/resource_providers/{uuid}/inventories', 'GET'): (1, 0),
    ('/resource_providers/{uuid}/inventories', 'PUT'): (1, 0),
    ('/resource_providers/{uuid}/inventories', 'DELETE'): (1, 5),   # history 1.5
    ('/resource_providers/{uuid}/inventories/{resource_class}', 'GET'): (1, 0),
    ('/resource_providers/{uuid}/inventories/{resource_class}', 'PUT'): (1, 0),
    ('/resource_providers/{uuid}/inventories/{resource_class}', 'DELETE'): (1, 0),
    ('/resource_providers/{uuid}/usages', 'GET'): (1, 0),
    ('/resource_providers/{uuid}/aggregates', 'GET'): (1, 1),    # history 1.1
    ('/resource_providers/{uuid}/aggregates', 'PUT'): (1, 1),
    ('/resource_providers/{uuid}/allocations', 'GET'): (1, 0),
    ('/allocations', 'POST'): (1, 13),                           # history 1.13
    ('/allocations/{consumer_uuid}', 'GET'): (1, 0),
    ('/allocations/{consumer_uuid}', 'PUT'): (1, 0),
    ('/allocations/{consumer_uuid}', 'DELETE'): (1, 0),
    ('/allocation_candidates', 'GET'): (1, 10),                  # history 1.10
    ('/traits', 'GET'): (1, 6),                                  # history 1.6
    ('/traits/{name}', 'GET'): (1, 6),
    ('/traits/{name}', 'PUT'): (1, 6),
    ('/traits/{name}', 'DELETE'): (1, 6),
    ('/resource_providers/{uuid}/traits', 'GET'): (1, 6),
    ('/resource_providers/{uuid}/traits', 'PUT'): (1, 6),
    ('/resource_providers/{uuid}/traits', 'DELETE'): (1, 6),
    ('/usages', 'GET'): (1, 9),                                  # history 1.9
    ('/reshaper', 'POST'): (1, 30),                              # history 1.30
}
# Declared by the service, absent from api-ref and version history: the oracle has nothing to
# say about availability (headers and "no 5xx" are still checked).
UNDOCUMENTED = {('/resource_providers/{uuid}/inventories', 'POST')}
ROUTES = sorted({r for r, _ in INTRODUCED}) + [UNKNOWN_ROUTE]


def route_methods(route, v):
    return sorted(m for (r, m), n in INTRODUCED.items() if r == route and n <= v)


def route_introduced(route):
    return min(n for (r, _), n in INTRODUCED.items() if r == route)


def normal_status(route, method, v):
    """'Normal Response Codes' of the api-ref for the request built by a_request()."""
    if method == 'GET':
        return {204} if route == '/traits/{name}' else {200}
    if method == 'DELETE':
        return {204}
    if method == 'POST':
        if route == '/resource_providers':
            return {201} if v < (1, 20) else {200}
        if route == '/resource_classes':
            return {201}
        return {204}                        # /allocations, /reshaper
    # PUT
    if route == '/resource_classes/{name}':
        return {200} if v < (1, 7) else {201}
    if route == '/traits/{name}':
        return {201}
    if route == '/allocations/{consumer_uuid}':
        return {204}
    return {200}


def a_request(s, route, method, v):
    """(path, body, query) of a request that is valid at version v for a documented method;
    for methods the route never had: the same path with a trivial body."""
    body = query = None
    path = route
    if route == UNKNOWN_ROUTE:
        pass
    elif route == '/resource_classes':
        if method == 'POST':
            body = {'name': NEWCLASS}
    elif route == '/resource_classes/{name}':
        if method == 'PUT':
            if v < (1, 7):
                path, body = '/resource_classes/' + CCLASS, {'name': NEWCLASS}
            else:
                path = '/resource_classes/' + NEWCLASS
        else:
            path = '/resource_classes/' + CCLASS
    elif route == '/resource_providers':
        if method == 'POST':
            body = {'name': 'c14-new', 'uuid': PNEW}
    elif route == '/resource_providers/{uuid}':
        # P5 has no children and no allocations in any state: deletable
        path = '/resource_providers/' + (P(5) if method == 'DELETE' else P(3))
        if method == 'PUT':
            body = {'name': 'c14-renamed'}
    elif route == '/resource_providers/{uuid}/inventories':
        path = '/resource_providers/%s/inventories' % P(3)
        if method == 'PUT':
            body = {'resource_provider_generation': s.pgen[P(3)],
                    'inventories': {'VCPU': {'total': 16}, 'DISK_GB': {'total': 10}}}
        if method == 'POST':
            body = {'resource_provider_generation': s.pgen[P(3)],
                    'resource_class': 'DISK_GB', 'total': 10}
    elif route == '/resource_providers/{uuid}/inventories/{resource_class}':
        path = '/resource_providers/%s/inventories/VCPU' % P(3)
        if method == 'PUT':
            body = {'resource_provider_generation': s.pgen[P(3)], 'total': 16}
    elif route == '/resource_providers/{uuid}/usages':
        path = '/resource_providers/%s/usages' % P(1)
    elif route == '/resource_providers/{uuid}/aggregates':
        path = '/resource_providers/%s/aggregates' % P(1)
        if method == 'PUT':
            body = agg_body(max(v, (1, 1)), [A1, A3], s.pgen[P(1)])
    elif route == '/resource_providers/{uuid}/allocations':
        path = '/resource_providers/%s/allocations' % P(1)
    elif route == '/allocations':
        if method == 'POST':
            body = post_alloc_body(v, KNEW, {P(3): {'VCPU': 1}})
    elif route == '/allocations/{consumer_uuid}':
        if method == 'PUT':
            path, body = '/allocations/' + KNEW, alloc_body(v, {P(3): {'VCPU': 1}})
        else:
            path = '/allocations/' + K(1)
    elif route == '/allocation_candidates':
        query = 'resources=VCPU:1'
    elif route == '/traits/{name}':
        path = '/traits/' + (NEWTRAIT if method == 'PUT' else CTRAIT)
    elif route == '/resource_providers/{uuid}/traits':
        path = '/resource_providers/%s/traits' % P(3)
        if method == 'PUT':
            body = {'resource_provider_generation': s.pgen[P(3)], 'traits': [TA, CTRAIT]}
    elif route == '/usages':
        query = 'project_id=' + PJ1
    elif route == '/reshaper':
        if method == 'POST':
            body = reshaper_body(s, v)
    if body is None and method in ('POST', 'PUT', 'PATCH') and \
            (route, method) not in INTRODUCED:
        body = {}
    return path, body, query


_UUID = re.compile(r'[0-9a-f]{8}-[0-9a-f]{4}-[0-9a-f]{4}-[0-9a-f]{4}-[0-9a-f]{12}')


def template(method, path):
    """'METHOD /route/template' of a concrete path (same spelling as Part A's cells)."""
    if path == UNKNOWN_ROUTE:
        return '<unknown route>'
    t = _UUID.sub('{uuid}', path)
    t = t.replace('/allocations/{uuid}', '/allocations/{consumer_uuid}')
    t = re.sub(r'^/(traits|resource_classes)/[^/]+$', r'/\1/{name}', t)
    t = re.sub(r'/inventories/[^/]+$', '/inventories/{resource_class}', t)
    return '%s %s' % (method, t)


def lower(headers):
    return {k.lower(): v for k, v in (headers or {}).items()}


def check_version_headers(vv, hd, where):
    """openstack-api-version names the applied version; Vary lists the header."""
    out = []
    want = 'placement ' + vstr(vv['applied'])
    got = hd.get(HDR)
    if got != want:
        out.append(('version-header:%s' % where,
                    'response header %s is %r, expected %r' % (HDR, got, want)))
    vary = [x.strip().lower() for x in (hd.get('vary') or '').split(',') if x.strip()]
    if HDR not in vary:
        out.append(('vary-missing:%s' % where,
                    'Vary header is %r, it does not list %s' % (hd.get('vary'), HDR)))
    return out


def judge_a(route, method, vv, status, headers, body):
    """-> list of (signature, message)."""
    hd = lower(headers)
    cell = '%s %s' % (method, route if route != UNKNOWN_ROUTE else '<unknown route>')
    out = []
    if status >= 500:
        return [('server-error:%s:%s' % (cell, status), 'answered %s' % status)]
    if vv['cls'] == 'outside':
        if status != 406:
            out.append(('outside-not-406:%s:%s' % (vv['id'], status),
                        'version %s is outside 1.0-1.39 but the answer is %s, not 406'
                        % (vv['id'], status)))
        elif body is not None:
            try:
                e = body['errors'][0]
                ok = e.get('min_version') == '1.0' and e.get('max_version') == '1.39'
            except Exception:
                ok = False
            if not ok:
                out.append(('406-body:%s' % vv['id'],
                            '406 body does not name min_version 1.0 / max_version 1.39'))
        return out
    if vv['cls'] == 'malformed':
        if status not in (400, 406):
            out.append(('malformed-version:%s:%s' % (cell, status),
                        'malformed version %r answered %s' % (vv['mv'], status)))
        return out
    v = vv['applied']
    if status == 406:
        out.append(('accepted-406:%s' % cell, 'version %s answered 406' % vv['id']))
        return out
    # one signature for the unknown route whatever the method
    where = '%s:%s' % (status, '<unknown route>' if route == UNKNOWN_ROUTE else cell)
    out += check_version_headers(vv, hd, where)
    if route == UNKNOWN_ROUTE:
        exp = {404}
    else:
        intro = INTRODUCED.get((route, method))
        rintro = route_introduced(route)
        if (route, method) in UNDOCUMENTED:
            exp = None
        elif intro is None:
            exp = {405}
            if v < rintro:
                exp.add(404)
            get_intro = INTRODUCED.get((route, 'GET'))
            if method == 'HEAD' and get_intro is not None and v >= get_intro:
                exp |= normal_status(route, 'GET', v)       # HEAD may mirror GET
            if method == 'OPTIONS':
                exp |= {200, 204}
        elif v < intro:
            exp = {404} if v < rintro else {405}
        else:
            exp = normal_status(route, method, v)
    if exp is not None and status not in exp:
        out.append(('status:%s:%s:want%s' % (cell, status, '/'.join(map(str, sorted(exp)))),
                    '%s at %s answered %s, documentation says %s' % (
                        cell, vv['id'], status, sorted(exp))))
    if status == 405 or (method == 'OPTIONS' and status in (200, 204)):
        allow = [x.strip().upper() for x in (hd.get('allow') or '').split(',') if x.strip()]
        # The Allow header is required by RFC 7231 but promised neither by the property nor by
        # the API documentation: counted in the evidence (note:*), never a violation.
        if not allow:
            out.append(('note:allow-missing:%s' % cell, '%s without Allow header' % status))
        elif route != UNKNOWN_ROUTE:
            missing = [m for m in route_methods(route, v) if m not in allow]
            if missing:
                out.append(('note:allow-incomplete:%s' % cell,
                            'Allow %r omits %s documented for %s at %s' % (
                                hd.get('allow'), missing, route, vstr(v))))
    return out


# ---------------------------------------------------------------------------------------------
# Part H: error responses of accepted versions carry the version headers too
# ---------------------------------------------------------------------------------------------
# name -> (method, path, R-kwargs, documented status)
HEADER_PROBES = {
    'unknown provider': ('GET', '/resource_providers/' + PNEW, {}, 404),
    'unknown consumer delete': ('DELETE', '/allocations/' + KNEW, {}, 404),
    'body without content-type': ('POST', '/resource_providers',
                                  {'raw': '{"name": "c14-new"}', 'ctype': None}, 400),
    'unsupported content-type': ('POST', '/resource_providers',
                                 {'raw': '{"name": "c14-new"}', 'ctype': 'text/plain'}, 415),
    'unacceptable accept': ('GET', '/resource_providers', {'accept': 'text/plain'}, 406),
    'invalid json': ('POST', '/resource_providers', {'raw': '{'}, 400),
    'duplicate name': ('POST', '/resource_providers', {'body': {'name': 'c14-rp1'}}, 409),
}


def judge_h(name, vv, status, headers):
    method, path, _, want = HEADER_PROBES[name]
    if status >= 500:
        return [('server-error:%s:%s' % (name, status), 'answered %s' % status)]
    out = check_version_headers(vv, lower(headers), '%s:%s' % (status, template(method, path)))
    if status != want:
        out.append(('error-status:%s:%s' % (name, status),
                    '%s %s (%s) answered %s, expected %s' % (method, path, name, status, want)))
    return out


# ---------------------------------------------------------------------------------------------
# Part B: versioned features (filled in below)
# ---------------------------------------------------------------------------------------------
FEATURES = []
FEATURE_BY_ID = {}


class Feature(object):
    """A versioned feature: present exactly for since <= version <= until.

    probe(s, v)            -> list of request tuples (method, path, body, query) at version v
    present(s, v, resps)   -> bool, the presence predicate on the responses
    below                  -> statuses the documentation names for the last response when the
                              version is lower than `since` (None: 'absent or rejected')
    """

    def __init__(self, fid, since, doc, probe, present, until=None, below=None, after=None,
                 note=None):
        self.id, self.since, self.until, self.doc = fid, since, until or MAXV, doc
        self.note = note        # note(s, v, resps) -> str: an observation outside C14's scope
        self.probe, self.present, self.below, self.after = probe, present, below, after
        if fid in FEATURE_BY_ID:
            raise ValueError(fid)
        FEATURE_BY_ID[fid] = self
        FEATURES.append(self)

    def expected(self, v):
        return self.since <= v <= self.until


def judge_b(f, vv, resps, s, cells=None, main=0):
    """resps: list of (status, headers, json, vv id).  -> (present, [(sig, msg)])"""
    v = vv['applied']
    out = []
    for st, hd, _, _ in resps:
        if st >= 500:
            return None, [('server-error:%s:%s' % (f.id, st), 'probe answered %s' % st)]
    for (st, hd, _, rvv), cell in zip(resps, cells or [f.id] * len(resps)):
        for sig, msg in check_version_headers(VV_BY_ID[rvv], lower(hd), '%s:%s' % (st, cell)):
            out.append((sig, msg))
    try:
        present = bool(f.present(s, v, resps))
    except Exception as e:     # a predicate that cannot read the response: feature not there
        present = False
        if f.expected(v):
            out.append(('predicate-error:%s' % f.id, 'predicate failed on response: %r' % e))
    exp = f.expected(v)
    # the probing request (the first one sent at the version under test); requests before it
    # prepare, later ones only read the effect back
    last = resps[main][0]
    if present != exp:
        kind = 'missing' if exp else ('early' if v < f.since else 'late')
        out.append(('feature-%s:%s' % (kind, f.id),
                    'feature %r (%s; %s) is %s at version %s [statuses %s]' % (
                        f.id, 'since %s' % vstr(f.since) + (
                            ' until %s' % vstr(f.until) if f.until != MAXV else ''), f.doc,
                        'present' if present else 'absent', vv['id'],
                        [r[0] for r in resps])))
    elif not exp:
        want = f.below if v < f.since else f.after
        if want is not None and last not in want:
            out.append(('feature-rejection:%s:%s' % (f.id, last),
                        'feature %r outside its versions (%s) answered %s, documentation '
                        'says %s' % (f.id, vv['id'], last, sorted(want))))
    return present, out


def ok(r):
    return 200 <= r[0] < 300


def rp_set(r):
    return frozenset(p['uuid'] for p in r[2]['resource_providers'])


def cand_set(r):
    """allocation requests as a set of provider-uuid sets (list form 1.10-1.11, dict form
    from 1.12)"""
    out = set()
    for ar in r[2]['allocation_requests']:
        al = ar['allocations']
        if isinstance(al, dict):
            out.add(frozenset(al))
        else:
            out.add(frozenset(x['resource_provider']['uuid'] for x in al))
    return frozenset(out)


def rels(provider_json):
    return {x['rel'] for x in provider_json['links']}


def hdr(r, name):
    return lower(r[1]).get(name)


HIST = 'rest_api_version_history.rst '
REF = 'api-ref '
RP = '/resource_providers'
AC = '/allocation_candidates'
FILTERS = []        # (feature id, expected-set function, unfiltered-set function)


def status_feature(fid, since, doc, method, path, body=None, query=None, want=(200,),
                   below=None, until=None, after=None):
    """Present = the (otherwise valid) request succeeds with a documented normal code."""
    def probe(s, v):
        return [(method, path(s, v) if callable(path) else path,
                 body(s, v) if callable(body) else body,
                 query(s, v) if callable(query) else query)]
    return Feature(fid, since, doc, probe, lambda s, v, r: r[-1][0] in want, below=below,
                   until=until, after=after)


def rp_filter(fid, since, doc, query, expect):
    """A filter of GET /resource_providers: present = 200 and exactly the documented subset
    (which differs from the unfiltered list, so that 'ignored' is told from 'applied')."""
    FILTERS.append((fid, expect, lambda s: s.all))
    return Feature(fid, since, doc,
                   lambda s, v: [('GET', RP, None, query(s) if callable(query) else query)],
                   lambda s, v, r: r[0][0] == 200 and rp_set(r[0]) == expect(s))


def ac_filter(fid, since, doc, query, expect, base=None):
    """Same for GET /allocation_candidates (compared on the provider sets of the requests)."""
    FILTERS.append((fid, expect, base or (lambda s: s.singles(s.having('VCPU')))))
    return Feature(fid, since, doc,
                   lambda s, v: [('GET', AC, None, query(s) if callable(query) else query)],
                   lambda s, v, r: r[0][0] == 200 and cand_set(r[0]) == expect(s))


def json_feature(fid, since, doc, method, path, pred, body=None, query=None, until=None):
    """Present = success and pred(json, s) on the response body."""
    def probe(s, v):
        return [(method, path(s, v) if callable(path) else path,
                 body(s, v) if callable(body) else body,
                 query(s, v) if callable(query) else query)]
    return Feature(fid, since, doc, probe,
                   lambda s, v, r: ok(r[-1]) and bool(pred(r[-1][2], s)), until=until)


# -- 1.1 ---------------------------------------------------------------------------------------
status_feature('1.1 GET aggregates', (1, 1), HIST + '1.1; aggregates.inc note',
               'GET', RP + '/%s/aggregates' % P(1), below={404})
status_feature('1.1 PUT aggregates', (1, 1), HIST + '1.1', 'PUT',
               RP + '/%s/aggregates' % P(1),
               body=lambda s, v: agg_body(v, [A1, A3], s.pgen[P(1)]), below={404})
json_feature('1.1 aggregates link (show)', (1, 1), REF + 'parameters.yaml '
             'resource_provider_links note', 'GET', RP + '/' + P(1),
             lambda j, s: 'aggregates' in rels(j))
json_feature('1.1 aggregates link (list)', (1, 1), REF + 'parameters.yaml '
             'resource_provider_links note', 'GET', RP,
             lambda j, s: all('aggregates' in rels(p) for p in j['resource_providers']))
# -- 1.2 ---------------------------------------------------------------------------------------
status_feature('1.2 GET /resource_classes', (1, 2), HIST + '1.2', 'GET', '/resource_classes',
               below={404})
status_feature('1.2 GET /resource_classes/{name}', (1, 2), HIST + '1.2', 'GET',
               '/resource_classes/' + CCLASS, below={404})
status_feature('1.2 POST /resource_classes', (1, 2), HIST + '1.2', 'POST', '/resource_classes',
               body={'name': NEWCLASS}, want=(201,), below={404})
status_feature('1.2 DELETE /resource_classes/{name}', (1, 2), HIST + '1.2', 'DELETE',
               '/resource_classes/' + CCLASS, want=(204,), below={404})
json_feature('1.2-1.6 PUT /resource_classes/{name} renames', (1, 2),
             REF + 'resource_class.inc "Update resource class (microversions 1.2 - 1.6)"',
             'PUT', '/resource_classes/' + CCLASS, lambda j, s: j.get('name') == NEWCLASS,
             body={'name': NEWCLASS}, until=(1, 6))
# -- 1.3 ---------------------------------------------------------------------------------------
rp_filter('1.3 rp member_of=in:', (1, 3), HIST + '1.3', 'member_of=in:%s,%s' % (A1, A(7)),
          lambda s: s.in_any_agg(A1))
rp_filter('1.3 rp member_of=<uuid>', (1, 3), REF + 'parameters.yaml resource_provider_member_of',
          'member_of=' + A2, lambda s: s.in_any_agg(A2))
# -- 1.4 ---------------------------------------------------------------------------------------
rp_filter('1.4 rp resources', (1, 4), HIST + '1.4', 'resources=VCPU:1',
          lambda s: s.having('VCPU'))
# -- 1.5 ---------------------------------------------------------------------------------------
status_feature('1.5 DELETE inventories', (1, 5), HIST + '1.5; inventories.inc note', 'DELETE',
               RP + '/%s/inventories' % P(3), want=(204,), below={405})
# -- 1.6 ---------------------------------------------------------------------------------------
status_feature('1.6 GET /traits', (1, 6), HIST + '1.6', 'GET', '/traits', below={404})
status_feature('1.6 GET /traits/{name}', (1, 6), HIST + '1.6', 'GET', '/traits/' + TA,
               want=(204,), below={404})
status_feature('1.6 PUT /traits/{name}', (1, 6), HIST + '1.6', 'PUT', '/traits/' + NEWTRAIT,
               want=(201,), below={404})
status_feature('1.6 DELETE /traits/{name}', (1, 6), HIST + '1.6', 'DELETE',
               '/traits/' + CTRAIT, want=(204,), below={404})
status_feature('1.6 GET rp traits', (1, 6), HIST + '1.6', 'GET', RP + '/%s/traits' % P(1),
               below={404})
status_feature('1.6 PUT rp traits', (1, 6), HIST + '1.6', 'PUT', RP + '/%s/traits' % P(3),
               body=lambda s, v: {'resource_provider_generation': s.pgen[P(3)],
                                  'traits': [TA]}, below={404})
status_feature('1.6 DELETE rp traits', (1, 6), HIST + '1.6', 'DELETE',
               RP + '/%s/traits' % P(3), want=(204,), below={404})
json_feature('1.6 traits link (show)', (1, 6), REF + 'parameters.yaml resource_provider_links '
             'note', 'GET', RP + '/' + P(1), lambda j, s: 'traits' in rels(j))
json_feature('1.6 traits link (list)', (1, 6), REF + 'parameters.yaml resource_provider_links '
             'note', 'GET', RP,
             lambda j, s: all('traits' in rels(p) for p in j['resource_providers']))
# -- 1.7 ---------------------------------------------------------------------------------------
Feature('1.7 PUT /resource_classes/{name} creates', (1, 7), HIST + '1.7',
        lambda s, v: [('PUT', '/resource_classes/' + NEWCLASS, None, None),
                      ('GET', '/resource_classes/' + NEWCLASS, None, None, '1.39')],
        lambda s, v, r: r[0][0] == 201 and hdr(r[0], 'location') is not None and
        r[1][0] == 200)
status_feature('1.7 PUT /resource_classes/{name} verifies', (1, 7), HIST + '1.7', 'PUT',
               '/resource_classes/' + CCLASS, want=(204,))
# -- 1.8 ---------------------------------------------------------------------------------------


def _without(d, *keys):
    return {k: x for k, x in d.items() if k not in keys}


status_feature('1.8 PUT allocations requires project_id/user_id', (1, 8), HIST + '1.8', 'PUT',
               '/allocations/' + KNEW,
               body=lambda s, v: _without(alloc_body(v, {P(3): {'VCPU': 1}}),
                                          'project_id', 'user_id'),
               want=(400,), below={204})
Feature('1.8 PUT allocations records project_id/user_id', (1, 8), HIST + '1.8; allocations.inc',
        lambda s, v: [('PUT', '/allocations/' + KNEW,
                       dict(alloc_body(v, {P(3): {'VCPU': 1}}), project_id=PJ9, user_id=U9),
                       None),
                      ('GET', '/allocations/' + KNEW, None, None, '1.12')],
        lambda s, v, r: r[0][0] == 204 and r[1][2].get('project_id') == PJ9 and
        r[1][2].get('user_id') == U9)
# -- 1.9 ---------------------------------------------------------------------------------------
status_feature('1.9 GET /usages', (1, 9), HIST + '1.9', 'GET', '/usages',
               query='project_id=' + PJ1, below={404})
status_feature('1.9 GET /usages project+user', (1, 9), HIST + '1.9', 'GET', '/usages',
               query='project_id=%s&user_id=%s' % (PJ1, U1), below={404})
# -- 1.10 --------------------------------------------------------------------------------------
Feature('1.10 GET /allocation_candidates', (1, 10), HIST + '1.10',
        lambda s, v: [('GET', AC, None, 'resources=VCPU:1')],
        lambda s, v, r: r[0][0] == 200 and
        cand_set(r[0]) == s.singles(s.having('VCPU')) and
        set(r[0][2]['provider_summaries']) >= set(s.having('VCPU')), below={404})
# -- 1.11 --------------------------------------------------------------------------------------
json_feature('1.11 allocations link (list)', (1, 11), HIST + '1.11', 'GET', RP,
             lambda j, s: all('allocations' in rels(p) for p in j['resource_providers']))
json_feature('1.11 allocations link (show)', (1, 11), REF + 'parameters.yaml '
             'resource_provider_links note', 'GET', RP + '/' + P(1),
             lambda j, s: 'allocations' in rels(j))
# -- 1.12 --------------------------------------------------------------------------------------
status_feature('1.12 PUT allocations dict form', (1, 12), HIST + '1.12', 'PUT',
               '/allocations/' + KNEW,
               body=lambda s, v: alloc_body(max(v, (1, 12)), {P(3): {'VCPU': 1}}),
               want=(204,), below={400})
status_feature('1.0-1.11 PUT allocations array form', (1, 0), HIST + '1.12; allocations.inc '
               '"Request (microversions 1.0 - 1.11)"', 'PUT', '/allocations/' + KNEW,
               body=lambda s, v: dict(alloc_body(min(v, (1, 11)), {P(3): {'VCPU': 1}}),
                                      **({'project_id': PJ9, 'user_id': U9}
                                         if v >= (1, 8) else {})),
               want=(204,), until=(1, 11), after={400})
json_feature('1.12 GET allocations shows project_id/user_id', (1, 12), HIST + '1.12', 'GET',
             '/allocations/' + K(1),
             lambda j, s: j.get('project_id') == PJ1 and j.get('user_id') == U1)
json_feature('1.12 a_c allocation_requests in dict form', (1, 12), HIST + '1.12', 'GET', AC,
             lambda j, s: j['allocation_requests'] and all(
                 isinstance(a['allocations'], dict) for a in j['allocation_requests']),
             query='resources=VCPU:1')
json_feature('1.10-1.11 a_c allocation_requests in array form', (1, 10),
             REF + 'allocation_candidates.inc "Response (microversions 1.10 - 1.11)"', 'GET',
             AC, lambda j, s: j['allocation_requests'] and all(
                 isinstance(a['allocations'], list) for a in j['allocation_requests']),
             query='resources=VCPU:1', until=(1, 11))
# -- 1.13 --------------------------------------------------------------------------------------
status_feature('1.13 POST /allocations', (1, 13), HIST + '1.13', 'POST', '/allocations',
               body=lambda s, v: post_alloc_body(v, KNEW, {P(3): {'VCPU': 1}}), want=(204,),
               below={404})
# -- 1.14 --------------------------------------------------------------------------------------
_nested = lambda j, s: 'parent_provider_uuid' in j and 'root_provider_uuid' in j  # noqa
json_feature('1.14 parent/root fields (show)', (1, 14), HIST + '1.14', 'GET', RP + '/' + P(4),
             lambda j, s: j.get('parent_provider_uuid') == P(1) and
             j.get('root_provider_uuid') == P(1))
json_feature('1.14 parent/root fields (list)', (1, 14), HIST + '1.14', 'GET', RP,
             lambda j, s: all(_nested(p, s) for p in j['resource_providers']))
json_feature('1.14 parent/root fields (PUT response)', (1, 14), REF + 'resource_provider.inc',
             'PUT', RP + '/' + P(3), _nested, body={'name': 'c14-renamed'})
Feature('1.14 POST provider accepts parent_provider_uuid', (1, 14), HIST + '1.14',
        lambda s, v: [('POST', RP, {'name': 'c14-new', 'uuid': PNEW,
                                    'parent_provider_uuid': P(3)}, None),
                      ('GET', RP + '/' + PNEW, None, None, '1.14')],
        lambda s, v, r: ok(r[0]) and r[1][2].get('parent_provider_uuid') == P(3))
Feature('1.14 PUT provider accepts parent_provider_uuid', (1, 14), HIST + '1.14',
        lambda s, v: [('PUT', RP + '/' + P(5), {'name': s.prov[P(5)]['name'],
                                                 'parent_provider_uuid': P(3)}, None),
                      ('GET', RP + '/' + P(5), None, None, '1.14')],
        lambda s, v, r: ok(r[0]) and r[1][2].get('parent_provider_uuid') == P(3))
rp_filter('1.14 rp in_tree', (1, 14), HIST + '1.14', 'in_tree=' + P(4), lambda s: s.tree(P(1)))

# -- 1.15 --------------------------------------------------------------------------------------
def _cache_headers(s, v, r):
    return ok(r[-1]) and hdr(r[-1], 'last-modified') is not None and \
        'no-cache' in (hdr(r[-1], 'cache-control') or '')


def cache_feature(name, method, path, body=None, query=None, first=(1, 0)):
    """1.15: last-modified + cache-control: no-cache on GET responses and on PUT/POST
    responses that have bodies.  `first`: version from which the operation exists with a
    response body at all; `body(s, v)` is valid for v."""
    def probe(s, v):
        vb = max(v, first)
        return [(method, path, body(s, vb) if callable(body) else body, query)]
    return Feature('1.15 cache headers: ' + name, (1, 15), HIST + '1.15', probe,
                   _cache_headers)


cache_feature('GET /', 'GET', '/')
cache_feature('GET /resource_providers', 'GET', RP)
cache_feature('GET /resource_providers/{uuid}', 'GET', RP + '/' + P(1))
cache_feature('GET inventories', 'GET', RP + '/%s/inventories' % P(1))
cache_feature('GET inventory', 'GET', RP + '/%s/inventories/VCPU' % P(1))
cache_feature('GET rp usages', 'GET', RP + '/%s/usages' % P(1))
cache_feature('GET aggregates', 'GET', RP + '/%s/aggregates' % P(1))
cache_feature('GET rp allocations', 'GET', RP + '/%s/allocations' % P(1))
cache_feature('GET rp traits', 'GET', RP + '/%s/traits' % P(1))
cache_feature('GET allocations', 'GET', '/allocations/' + K(1))
cache_feature('GET allocations (no allocations)', 'GET', '/allocations/' + KNEW)
cache_feature('GET /traits', 'GET', '/traits')
cache_feature('GET /traits/{name}', 'GET', '/traits/' + TA)
cache_feature('GET /resource_classes', 'GET', '/resource_classes')
cache_feature('GET /resource_classes/{name}', 'GET', '/resource_classes/VCPU')
cache_feature('GET /usages', 'GET', '/usages', query='project_id=' + PJ1)
cache_feature('GET /allocation_candidates', 'GET', AC, query='resources=VCPU:1')
cache_feature('PUT /resource_providers/{uuid}', 'PUT', RP + '/' + P(3),
              body={'name': 'c14-renamed'})
cache_feature('PUT inventories', 'PUT', RP + '/%s/inventories' % P(3),
              body=lambda s, v: {'resource_provider_generation': s.pgen[P(3)],
                                 'inventories': {'VCPU': {'total': 16}}})
cache_feature('PUT inventory', 'PUT', RP + '/%s/inventories/VCPU' % P(3),
              body=lambda s, v: {'resource_provider_generation': s.pgen[P(3)], 'total': 16})
cache_feature('PUT aggregates', 'PUT', RP + '/%s/aggregates' % P(1),
              body=lambda s, v: agg_body(v, [A3], s.pgen[P(1)]), first=(1, 1))
cache_feature('PUT rp traits', 'PUT', RP + '/%s/traits' % P(3),
              body=lambda s, v: {'resource_provider_generation': s.pgen[P(3)], 'traits': [TA]})
Feature('1.20 cache headers: POST /resource_providers (has a body from 1.20)', (1, 20),
        HIST + '1.15 + 1.20',
        lambda s, v: [('POST', RP, {'name': 'c14-new', 'uuid': PNEW}, None)], _cache_headers)
# -- 1.16 --------------------------------------------------------------------------------------
Feature('1.16 a_c limit', (1, 16), HIST + '1.16',
        lambda s, v: [('GET', AC, None, 'resources=VCPU:1&limit=1')],
        lambda s, v, r: r[0][0] == 200 and len(r[0][2]['allocation_requests']) == 1)
# -- 1.17 --------------------------------------------------------------------------------------
ac_filter('1.17 a_c required', (1, 17), HIST + '1.17', 'resources=VCPU:1&required=' + TB,
          lambda s: s.singles(s.having('VCPU') & s.with_traits(TB)))
json_feature('1.17 a_c traits in provider summaries', (1, 17), HIST + '1.17', 'GET', AC,
             lambda j, s: all(set(j['provider_summaries'][u]['traits']) ==
                              set(s.prov[u]['traits']) for u in s.having('VCPU')),
             query='resources=VCPU:1')
# -- 1.18 --------------------------------------------------------------------------------------
rp_filter('1.18 rp required', (1, 18), HIST + '1.18', 'required=' + TA,
          lambda s: s.with_traits(TA))
rp_filter('1.18 rp required two traits', (1, 18), HIST + '1.18', 'required=%s,%s' % (TA, TB),
          lambda s: s.with_traits(TA, TB))
# -- 1.19 --------------------------------------------------------------------------------------
json_feature('1.19 GET aggregates shows generation', (1, 19), HIST + '1.19', 'GET',
             RP + '/%s/aggregates' % P(1),
             lambda j, s: j.get('resource_provider_generation') == s.pgen[P(1)])
status_feature('1.19 PUT aggregates object body', (1, 19), HIST + '1.19', 'PUT',
               RP + '/%s/aggregates' % P(1),
               body=lambda s, v: agg_body((1, 19), [A3], s.pgen[P(1)]))
status_feature('1.1-1.18 PUT aggregates list body', (1, 1),
               REF + 'aggregates.inc "Request (microversion 1.1 - 1.18)"', 'PUT',
               RP + '/%s/aggregates' % P(1), body=[A3], until=(1, 18), below={404},
               after={400})
json_feature('1.19 PUT aggregates response shows generation', (1, 19),
             REF + 'aggregates.inc resource_provider_generation_v1_19', 'PUT',
             RP + '/%s/aggregates' % P(1),
             lambda j, s: 'resource_provider_generation' in j,
             body=lambda s, v: agg_body(v, [A3], s.pgen[P(1)]))
status_feature('1.19 PUT aggregates generation conflict', (1, 19), HIST + '1.19', 'PUT',
               RP + '/%s/aggregates' % P(1),
               body=lambda s, v: agg_body((1, 19), [A3], s.pgen[P(1)] + 7), want=(409,))
# -- 1.20 --------------------------------------------------------------------------------------
Feature('1.20 POST provider returns 200 + payload', (1, 20), HIST + '1.20',
        lambda s, v: [('POST', RP, {'name': 'c14-new', 'uuid': PNEW}, None)],
        lambda s, v, r: r[0][0] == 200 and r[0][2].get('uuid') == PNEW and
        'generation' in r[0][2] and hdr(r[0], 'location') is not None, below={201})
Feature('1.0-1.19 POST provider returns 201 without body', (1, 0),
        REF + 'resource_providers.inc "Response (microversions 1.0 - 1.19)"',
        lambda s, v: [('POST', RP, {'name': 'c14-new', 'uuid': PNEW}, None)],
        lambda s, v, r: r[0][0] == 201 and r[0][2] is None and
        hdr(r[0], 'location') is not None, until=(1, 19), after={200})
# -- 1.21 --------------------------------------------------------------------------------------
ac_filter('1.21 a_c member_of', (1, 21), HIST + '1.21', 'resources=VCPU:1&member_of=' + A2,
          lambda s: s.singles(s.having('VCPU') & s.in_any_agg(A2)))
ac_filter('1.21 a_c member_of=in:', (1, 21), HIST + '1.21',
          'resources=VCPU:1&member_of=in:%s,%s' % (A2, A(7)),
          lambda s: s.singles(s.having('VCPU') & s.in_any_agg(A2)))
# -- 1.22 --------------------------------------------------------------------------------------
rp_filter('1.22 rp forbidden trait', (1, 22), HIST + '1.22', 'required=!' + TA,
          lambda s: s.all - s.with_traits(TA))
ac_filter('1.22 a_c forbidden trait', (1, 22), HIST + '1.22',
          'resources=VCPU:1&required=!' + TA,
          lambda s: s.singles(s.having('VCPU') - s.with_traits(TA)))
# -- 1.23 --------------------------------------------------------------------------------------


def error_code_feature(name, method, path, status, body=None, query=None, code=None,
                       first=(1, 0)):
    def probe(s, v):
        return [(method, path, body(s, max(v, first)) if callable(body) else body, query)]

    def present(s, v, r):
        c = r[0][2]['errors'][0].get('code')
        return r[0][0] == status and isinstance(c, str) and c.startswith('placement.')

    def note(s, v, r):
        # which code is used is not a matter of versioning: recorded, not judged
        c = r[0][2]['errors'][0].get('code')
        if code and c != code:
            return '%s %s answers code %s, errors.inc describes %s' % (method, path, c, code)
    return Feature('1.23 error code: ' + name, (1, 23), HIST + '1.23; errors.inc', probe,
                   present, note=note)


error_code_feature('404 unknown provider', 'GET', RP + '/' + PNEW, 404,
                   code='placement.undefined_code')
error_code_feature('404 unknown route', 'GET', UNKNOWN_ROUTE, 404,
                   code='placement.undefined_code')
error_code_feature('405', 'PATCH', RP, 405, code='placement.undefined_code')
error_code_feature('400 unknown query parameter', 'GET', RP, 400, query='c14_unknown=1',
                   code='placement.undefined_code')
error_code_feature('400 invalid body', 'POST', RP, 400, body={'c14': 1},
                   code='placement.undefined_code')
error_code_feature('409 duplicate provider name', 'POST', RP, 409,
                   body=lambda s, v: {'name': s.prov[P(1)]['name'], 'uuid': PNEW},
                   code='placement.duplicate_name')
error_code_feature('409 provider in use', 'DELETE', RP + '/' + P(2), 409,
                   code='placement.resource_provider.inuse')
error_code_feature('409 inventory in use', 'DELETE', RP + '/%s/inventories/VCPU' % P(1), 409,
                   code='placement.inventory.inuse')
error_code_feature('409 provider generation conflict', 'PUT',
                   RP + '/%s/inventories' % P(3), 409,
                   body=lambda s, v: {'resource_provider_generation': s.pgen[P(3)] + 7,
                                      'inventories': {}},
                   code='placement.concurrent_update')
error_code_feature('409 cannot delete parent', 'DELETE', RP + '/' + P(1), 409)
# -- 1.24 --------------------------------------------------------------------------------------
rp_filter('1.24 rp repeated member_of', (1, 24), HIST + '1.24',
          'member_of=%s&member_of=%s' % (A1, A2),
          lambda s: s.in_any_agg(A1) & s.in_any_agg(A2))
rp_filter('1.24 rp repeated member_of with in:', (1, 24), HIST + '1.24',
          'member_of=in:%s,%s&member_of=%s' % (A1, A(7), A2),
          lambda s: s.in_any_agg(A1) & s.in_any_agg(A2))
ac_filter('1.24 a_c repeated member_of', (1, 24),
          REF + 'parameters.yaml allocation_candidates_member_of',
          'resources=VCPU:1&member_of=%s&member_of=%s' % (A1, A2),
          lambda s: s.singles(s.having('VCPU') & s.in_any_agg(A1) & s.in_any_agg(A2)))
# -- 1.25 --------------------------------------------------------------------------------------
ac_filter('1.25 a_c granular resources1', (1, 25), HIST + '1.25', 'resources1=VCPU:1',
          lambda s: s.singles(s.having('VCPU')), base=lambda s: frozenset())
ac_filter('1.25 a_c granular required1', (1, 25), HIST + '1.25',
          'resources1=VCPU:1&required1=' + TB,
          lambda s: s.singles(s.having('VCPU') & s.with_traits(TB)))
ac_filter('1.25 a_c granular member_of1', (1, 25), HIST + '1.25',
          'resources1=VCPU:1&member_of1=' + A2,
          lambda s: s.singles(s.having('VCPU') & s.in_any_agg(A2)))
ac_filter('1.25 a_c group_policy=isolate', (1, 25), HIST + '1.25',
          'resources1=VCPU:1&resources2=MEMORY_MB:1&group_policy=isolate',
          lambda s: frozenset(), base=lambda s: s.singles(s.having('VCPU')))
ac_filter('1.25 a_c group_policy=none', (1, 25), HIST + '1.25',
          'resources1=VCPU:1&resources2=MEMORY_MB:1&group_policy=none',
          lambda s: s.singles(s.having('VCPU') & s.having('MEMORY_MB')),
          base=lambda s: frozenset())
# -- 1.26 --------------------------------------------------------------------------------------
status_feature('1.26 PUT inventory reserved == total', (1, 26), HIST + '1.26', 'PUT',
               RP + '/%s/inventories/VCPU' % P(3),
               body=lambda s, v: {'resource_provider_generation': s.pgen[P(3)], 'total': 8,
                                  'reserved': 8}, below={400})
status_feature('1.26 PUT inventories reserved == total', (1, 26), HIST + '1.26', 'PUT',
               RP + '/%s/inventories' % P(3),
               body=lambda s, v: {'resource_provider_generation': s.pgen[P(3)],
                                  'inventories': {'VCPU': {'total': 8, 'reserved': 8}}},
               below={400})
# -- 1.27 --------------------------------------------------------------------------------------
json_feature('1.27 a_c all classes in provider summaries', (1, 27), HIST + '1.27', 'GET', AC,
             lambda j, s: all(set(j['provider_summaries'][u]['resources']) ==
                              set(s.prov[u]['inv']) for u in s.having('VCPU')),
             query='resources=VCPU:1')
json_feature('1.10-1.26 a_c only requested classes in provider summaries', (1, 10),
             HIST + '1.27', 'GET', AC,
             lambda j, s: all(set(j['provider_summaries'][u]['resources']) == {'VCPU'}
                              for u in s.having('VCPU')),
             query='resources=VCPU:1', until=(1, 26))

# -- 1.28 --------------------------------------------------------------------------------------
json_feature('1.28 GET allocations shows consumer_generation', (1, 28), HIST + '1.28', 'GET',
             '/allocations/' + K(1),
             lambda j, s: j.get('consumer_generation') == s.cgen[K(1)])
json_feature('1.28 GET rp allocations shows consumer_generation', (1, 28), HIST + '1.28',
             'GET', RP + '/%s/allocations' % P(1),
             lambda j, s: j['allocations'] and all(
                 'consumer_generation' in a for a in j['allocations'].values()))
status_feature('1.28 PUT allocations requires consumer_generation', (1, 28), HIST + '1.28',
               'PUT', '/allocations/' + KNEW,
               body=lambda s, v: _without(alloc_body(v, {P(3): {'VCPU': 1}}),
                                          'consumer_generation'),
               want=(400,), below={204})
Feature('1.28 PUT allocations consumer generation conflict', (1, 28), HIST + '1.28',
        lambda s, v: [('PUT', '/allocations/' + K(1),
                       dict(alloc_body(v, {P(1): {'VCPU': 2}}, project=PJ1, user=U1),
                            consumer_generation=s.cgen[K(1)] + 7), None)],
        lambda s, v, r: r[0][0] == 409)
Feature('1.28 PUT allocations accepts empty allocations', (1, 28), HIST + '1.28',
        lambda s, v: [('PUT', '/allocations/' + K(1),
                       alloc_body(max(v, (1, 12)), {}, project=PJ1, user=U1,
                                  cgen=s.cgen[K(1)]), None),
                      ('GET', '/allocations/' + K(1), None, None, '1.28')],
        lambda s, v, r: r[0][0] == 204 and r[1][2]['allocations'] == {}, below={400})
status_feature('1.28 POST /allocations requires consumer_generation', (1, 28), HIST + '1.28',
               'POST', '/allocations',
               body=lambda s, v: {KNEW: _without(
                   alloc_body(max(v, (1, 13)), {P(3): {'VCPU': 1}}), 'consumer_generation')},
               want=(400,))
Feature('1.28 POST /allocations consumer generation conflict', (1, 28), HIST + '1.28',
        lambda s, v: [('POST', '/allocations',
                       {K(1): dict(alloc_body(max(v, (1, 13)), {P(1): {'VCPU': 2}},
                                              project=PJ1, user=U1),
                                   consumer_generation=s.cgen[K(1)] + 7)}, None)],
        lambda s, v, r: r[0][0] == 409)
# -- 1.29 --------------------------------------------------------------------------------------
json_feature('1.29 a_c parent/root in provider summaries', (1, 29), HIST + '1.29', 'GET', AC,
             lambda j, s: all(_nested(x, s) for x in j['provider_summaries'].values()) and
             j['provider_summaries'][P(1)]['root_provider_uuid'] == P(1),
             query='resources=VCPU:1')
ac_filter('1.29 a_c nested providers', (1, 29), HIST + '1.29',
          'resources=VCPU:1,%s:1' % VF, lambda s: s.nested_pairs(),
          base=lambda s: frozenset())
json_feature('1.29 a_c whole tree in provider summaries', (1, 29),
             REF + 'parameters.yaml provider_summaries_1_12', 'GET', AC,
             lambda j, s: set(j['provider_summaries']) == set().union(
                 *[s.tree(u) for u in s.having('VCPU')]), query='resources=VCPU:1')
# -- 1.30 --------------------------------------------------------------------------------------
status_feature('1.30 POST /reshaper', (1, 30), HIST + '1.30', 'POST', '/reshaper',
               body=lambda s, v: reshaper_body(s, v), want=(204,), below={404})
Feature('1.30 POST /reshaper changes inventory', (1, 30), HIST + '1.30',
        lambda s, v: [('POST', '/reshaper', reshaper_body(s, v, with_allocations=False), None),
                      ('GET', RP + '/%s/inventories/VCPU' % P(1), None, None, '1.0')],
        lambda s, v, r: r[0][0] == 204 and r[1][2]['total'] == 16, below={404})
# -- 1.31 --------------------------------------------------------------------------------------
ac_filter('1.31 a_c in_tree', (1, 31), HIST + '1.31', 'resources=VCPU:1&in_tree=' + P(4),
          lambda s: s.singles(s.having('VCPU') & s.tree(P(1))))
ac_filter('1.31 a_c in_tree<N>', (1, 31), HIST + '1.31', 'resources1=VCPU:1&in_tree1=' + P(2),
          lambda s: s.singles(s.having('VCPU') & s.tree(P(2))))
# -- 1.32 --------------------------------------------------------------------------------------
rp_filter('1.32 rp forbidden aggregate', (1, 32), HIST + '1.32', 'member_of=!' + A1,
          lambda s: s.all - s.in_any_agg(A1))
rp_filter('1.32 rp forbidden aggregates !in:', (1, 32), HIST + '1.32',
          'member_of=!in:%s,%s' % (A1, A3), lambda s: s.all - s.in_any_agg(A1, A3))
rp_filter('1.32 rp positive and forbidden aggregate', (1, 32), HIST + '1.32',
          'member_of=%s&member_of=!%s' % (A2, A1),
          lambda s: s.in_any_agg(A2) - s.in_any_agg(A1))
ac_filter('1.32 a_c forbidden aggregate', (1, 32), HIST + '1.32',
          'resources=VCPU:1&member_of=!' + A1,
          lambda s: s.singles(s.having('VCPU') - s.in_any_agg(A1)))
ac_filter('1.32 a_c granular forbidden aggregate', (1, 32),
          REF + 'parameters.yaml allocation_candidates_member_of_granular',
          'resources1=VCPU:1&member_of1=!' + A1,
          lambda s: s.singles(s.having('VCPU') - s.in_any_agg(A1)))
# -- 1.33 --------------------------------------------------------------------------------------
ac_filter('1.33 a_c string suffix', (1, 33), HIST + '1.33', 'resources_C14-x=VCPU:1',
          lambda s: s.singles(s.having('VCPU')), base=lambda s: frozenset())
ac_filter('1.33 a_c string suffix with required', (1, 33), HIST + '1.33',
          'resources_NET=VCPU:1&required_NET=' + TB,
          lambda s: s.singles(s.having('VCPU') & s.with_traits(TB)))
# -- 1.34 --------------------------------------------------------------------------------------
json_feature('1.34 a_c mappings', (1, 34), HIST + '1.34', 'GET', AC,
             lambda j, s: j['allocation_requests'] and all(
                 a.get('mappings') == {'': sorted(a['allocations'])}
                 for a in j['allocation_requests']), query='resources=VCPU:1')
status_feature('1.34 PUT allocations accepts mappings', (1, 34), HIST + '1.34', 'PUT',
               '/allocations/' + KNEW,
               body=lambda s, v: dict(alloc_body(max(v, (1, 12)), {P(3): {'VCPU': 1}}),
                                      mappings={'': [P(3)]}), want=(204,), below={400})
status_feature('1.34 POST /allocations accepts mappings', (1, 34), HIST + '1.34', 'POST',
               '/allocations',
               body=lambda s, v: {KNEW: dict(alloc_body(max(v, (1, 13)), {P(3): {'VCPU': 1}}),
                                             mappings={'': [P(3)]})}, want=(204,))


def _reshaper_with(s, v, **extra):
    b = reshaper_body(s, v)
    b['allocations'][K(1)].update(extra)
    return b


status_feature('1.34 POST /reshaper accepts mappings', (1, 34), HIST + '1.34', 'POST',
               '/reshaper', body=lambda s, v: _reshaper_with(s, v, mappings={'': [P(1)]}),
               want=(204,))
# -- 1.35 --------------------------------------------------------------------------------------
ac_filter('1.35 a_c root_required', (1, 35), HIST + '1.35',
          'resources=VCPU:1&root_required=' + TB,
          lambda s: s.singles(s.having('VCPU') & s.with_traits(TB)))
ac_filter('1.35 a_c root_required forbidden', (1, 35), HIST + '1.35',
          'resources=VCPU:1&root_required=!' + TB,
          lambda s: s.singles(s.having('VCPU') - s.with_traits(TB)))
# -- 1.36 --------------------------------------------------------------------------------------
ac_filter('1.36 a_c same_subtree', (1, 36), HIST + '1.36',
          'resources_A=VCPU:1&resources_B=%s:1&same_subtree=_A,_B&group_policy=none' % VF,
          lambda s: s.nested_pairs(), base=lambda s: frozenset())
ac_filter('1.36 a_c resourceless group in same_subtree', (1, 36), HIST + '1.36',
          'resources_A=VCPU:1&required_B=%s&same_subtree=_A,_B&group_policy=none' % TC,
          lambda s: s.singles(u for u in s.having('VCPU')
                              if s.tree(u) & s.with_traits(TC)))
# -- 1.37 --------------------------------------------------------------------------------------
Feature('1.37 PUT provider un-parents', (1, 37), HIST + '1.37',
        lambda s, v: [('PUT', RP + '/' + P(4), {'name': s.prov[P(4)]['name'],
                                                 'parent_provider_uuid': None}, None),
                      ('GET', RP + '/' + P(4), None, None, '1.14')],
        lambda s, v, r: r[0][0] == 200 and r[1][2]['parent_provider_uuid'] is None and
        r[1][2]['root_provider_uuid'] == P(4), below={400})
Feature('1.37 PUT provider re-parents', (1, 37), HIST + '1.37',
        lambda s, v: [('PUT', RP + '/' + P(4), {'name': s.prov[P(4)]['name'],
                                                 'parent_provider_uuid': P(3)}, None),
                      ('GET', RP + '/' + P(4), None, None, '1.14')],
        lambda s, v, r: r[0][0] == 200 and r[1][2]['parent_provider_uuid'] == P(3) and
        r[1][2]['root_provider_uuid'] == P(3), below={400})
Feature('1.37 PUT provider re-parents inside its own tree', (1, 37), HIST + '1.37',
        lambda s, v: [('POST', RP, {'name': 'c14-sibling', 'uuid': P(98),
                                    'parent_provider_uuid': P(1)}, None, '1.39'),
                      ('PUT', RP + '/' + P(4), {'name': s.prov[P(4)]['name'],
                                                 'parent_provider_uuid': P(98)}, None),
                      ('GET', RP + '/' + P(4), None, None, '1.14')],
        lambda s, v, r: r[0][0] == 200 and r[1][0] == 200 and
        r[2][2]['parent_provider_uuid'] == P(98) and r[2][2]['root_provider_uuid'] == P(1),
        below={400})
# -- 1.38 --------------------------------------------------------------------------------------
status_feature('1.38 PUT allocations requires consumer_type', (1, 38), HIST + '1.38', 'PUT',
               '/allocations/' + KNEW,
               body=lambda s, v: _without(alloc_body(v, {P(3): {'VCPU': 1}}),
                                          'consumer_type'), want=(400,), below={204})
Feature('1.38 PUT allocations records consumer_type', (1, 38), HIST + '1.38',
        lambda s, v: [('PUT', '/allocations/' + KNEW,
                       dict(alloc_body(max(v, (1, 12)), {P(3): {'VCPU': 1}}),
                            consumer_type='C14TYPE'), None),
                      ('GET', '/allocations/' + KNEW, None, None, '1.38')],
        lambda s, v, r: r[0][0] == 204 and r[1][2].get('consumer_type') == 'C14TYPE',
        below={400})
json_feature('1.38 GET allocations shows consumer_type', (1, 38), HIST + '1.38', 'GET',
             '/allocations/' + K(1), lambda j, s: j.get('consumer_type') == 'INSTANCE')
Feature('1.38 GET allocations reports unknown for a consumer written without a type', (1, 38),
        HIST + '1.38 ("Older allocations ... are considered to have an unknown consumer_type")',
        lambda s, v: [('PUT', '/allocations/' + KNEW, alloc_body((1, 37), {P(3): {'VCPU': 1}}),
                       None, '1.37'),
                      ('GET', '/allocations/' + KNEW, None, None)],
        lambda s, v, r: r[0][0] == 204 and ok(r[1]) and
        r[1][2].get('consumer_type') == 'unknown')
Feature('1.38 GET /usages groups a consumer written without a type under unknown', (1, 38),
        HIST + '1.38',
        lambda s, v: [('PUT', '/allocations/' + KNEW, alloc_body((1, 37), {P(3): {'VCPU': 1}}),
                       None, '1.37'),
                      ('GET', '/usages', None, 'project_id=' + PJ9)],
        lambda s, v, r: r[0][0] == 204 and ok(r[1]) and isinstance(
            r[1][2]['usages'].get('unknown'), dict) and
        r[1][2]['usages']['unknown'].get('consumer_count') == 1)
status_feature('1.38 POST /allocations requires consumer_type', (1, 38), HIST + '1.38',
               'POST', '/allocations',
               body=lambda s, v: {KNEW: _without(
                   alloc_body(max(v, (1, 13)), {P(3): {'VCPU': 1}}), 'consumer_type')},
               want=(400,))
status_feature('1.38 POST /allocations accepts consumer_type', (1, 38), HIST + '1.38', 'POST',
               '/allocations',
               body=lambda s, v: {KNEW: dict(alloc_body(max(v, (1, 13)), {P(3): {'VCPU': 1}}),
                                             consumer_type='C14TYPE')}, want=(204,))
json_feature('1.38 GET /usages consumer_type filter', (1, 38), HIST + '1.38', 'GET', '/usages',
             lambda j, s: set(j['usages']) == {'INSTANCE'},
             query='project_id=%s&consumer_type=INSTANCE' % PJ1)
json_feature('1.38 GET /usages grouped by consumer type', (1, 38), HIST + '1.38', 'GET',
             '/usages',
             lambda j, s: set(j['usages']) == {c['type'] for c in s.cons.values()
                                               if c['project'] == PJ1} and
             all('consumer_count' in x for x in j['usages'].values()),
             query='project_id=' + PJ1)
json_feature('1.9-1.37 GET /usages flat', (1, 9),
             REF + 'usages.inc "Response (microversions 1.9 - 1.36)"', 'GET', '/usages',
             lambda j, s: j['usages'] and all(isinstance(x, int) for x in j['usages'].values()),
             query='project_id=' + PJ1, until=(1, 37))
status_feature('1.38 POST /reshaper requires consumer_type', (1, 38), HIST + '1.38', 'POST',
               '/reshaper',
               body=lambda s, v: reshaper_body(s, min(max(v, (1, 30)), (1, 37))),
               want=(400,))
status_feature('1.38 POST /reshaper accepts consumer_type', (1, 38), HIST + '1.38', 'POST',
               '/reshaper', body=lambda s, v: reshaper_body(s, (1, 38)), want=(204,))
# -- 1.39 --------------------------------------------------------------------------------------
rp_filter('1.39 rp required=in:', (1, 39), HIST + '1.39', 'required=in:%s,%s' % (TA, TB),
          lambda s: s.with_any_trait(TA, TB))
rp_filter('1.39 rp repeated required', (1, 39), HIST + '1.39',
          'required=%s&required=%s' % (TA, TB), lambda s: s.with_traits(TA, TB))
rp_filter('1.39 rp required=in: with forbidden', (1, 39), HIST + '1.39',
          'required=in:%s,%s&required=!%s' % (TB, TC, TA),
          lambda s: s.with_any_trait(TB, TC) - s.with_traits(TA))
ac_filter('1.39 a_c required=in:', (1, 39), HIST + '1.39',
          'resources=VCPU:1&required=in:%s,%s' % (TB, TC),
          lambda s: s.singles(s.having('VCPU') & s.with_any_trait(TB, TC)))
ac_filter('1.39 a_c repeated required', (1, 39), HIST + '1.39',
          'resources=VCPU:1&required=%s&required=%s' % (TA, TB),
          lambda s: s.singles(s.having('VCPU') & s.with_traits(TA, TB)))
ac_filter('1.39 a_c required<N>=in:', (1, 39), HIST + '1.39',
          'resources1=VCPU:1&required1=in:%s,%s' % (TB, TC),
          lambda s: s.singles(s.having('VCPU') & s.with_any_trait(TB, TC)))
ac_filter('1.39 a_c repeated required<N>', (1, 39), HIST + '1.39',
          'resources1=VCPU:1&required1=%s&required1=%s' % (TA, TB),
          lambda s: s.singles(s.having('VCPU') & s.with_traits(TA, TB)))


# FEATURES-END
# ---------------------------------------------------------------------------------------------
# worker
# ---------------------------------------------------------------------------------------------
class Worker(vpenum.EnumWorker):
    def setup(self):
        self.states = {}

    def state(self, k):
        """-> (image, facts) or (None, (signature, message)) when a setup request -- all of
        them documented as valid at 1.39 -- is refused, which is itself a finding."""
        if k not in self.states:
            spec = state_spec(k)
            self.restore(self.base)
            for rq in setup_requests(spec):
                resp, _ = self.call(rq)
                if resp.status >= 400:
                    self.states[k] = (None, (
                        'setup-refused:%s@1.39:%s' % (template(rq['method'], rq['path']),
                                                      resp.status),
                        'valid 1.39 request %s %s %s answered %s %s' % (
                            rq['method'], rq['path'], json.dumps(rq.get('body')), resp.status,
                            resp.raw[:200])))
                    return self.states[k]
            img = self.image()
            d = self.dump()
            s = S(spec, {u: p['gen'] for u, p in d.providers.items()},
                  {u: c['gen'] for u, c in d.consumers.items()})
            if set(d.providers) != set(s.prov) or set(d.consumers) != set(s.cons):
                raise HarnessError('state %d was not built as specified' % k)
            self.states[k] = (img, s)
        return self.states[k]

    def case(self, c):
        if c['part'] == 'T':
            return {'status': 0, 'viol': judge_table(), 'n': 0, 'reqs': None, 'resp': None}
        img, s = self.state(c['state'])
        if img is None:
            return {'status': 0, 'present': None, 'viol': [s], 'n': 0, 'reqs': None,
                    'resp': None}
        self.restore(img)
        vv = VV_BY_ID[c['vv']]
        if c['part'] == 'H':
            method, path, kw, _ = HEADER_PROBES[c['probe']]
            kw = dict(kw)
            rq = req(vv, method, path, kw.pop('body', None), **kw)
            resp, _ = self.call(rq)
            viol = judge_h(c['probe'], vv, resp.status, resp.headers)
            return {'status': resp.status, 'viol': viol, 'reqs': [rq] if viol else None,
                    'resp': resp.brief() if viol else None, 'n': 1}
        if c['part'] == 'A':
            v = vv['applied'] or MAXV
            path, body, query = a_request(s, c['route'], c['method'], v)
            rq = req(vv, c['method'], path, body, query)
            resp, _ = self.call(rq)
            viol = judge_a(c['route'], c['method'], vv, resp.status, resp.headers, resp.json)
            n = 1
            intro = INTRODUCED.get((c['route'], c['method']))
            if body is not None and vv['cls'] not in ('outside', 'malformed') and \
                    intro is not None and v < intro and not viol:
                # an operation that does not exist yet at this version is "not found" whatever
                # the media type of the body that came with the request
                # (a body with NO content-type is refused with 400 for every route and version by
                # the dispatcher itself, before routing -- not a matter of the version surface)
                for label, ct in (('text/plain', 'text/plain'),):
                    rq2 = req(vv, c['method'], path, None, query, raw=json.dumps(body), ctype=ct)
                    r2, _ = self.call(rq2)
                    n += 1
                    if r2.status != resp.status:
                        viol.append(('not-yet-introduced-media-type:%s %s:%s' % (
                            c['method'], c['route'], r2.status),
                            '%s %s at %s is not introduced yet and answers %s to a JSON body, '
                            'but %s when the body comes with %s' % (
                                c['method'], c['route'], vv['id'], resp.status, r2.status,
                                label)))
                        rq = rq2
                        break
            return {'status': resp.status, 'viol': viol, 'reqs': [rq] if viol else None,
                    'resp': resp.brief() if viol else None, 'n': n,
                    'allow_self': (resp.status == 405 and c['method'] in [
                        x.strip() for x in lower(resp.headers).get('allow', '').split(',')])}
        f = FEATURE_BY_ID[c['feature']]
        probe = f.probe(s, vv['applied'])
        rqs = [req(vv, *t) if len(t) == 4 else req(VV_BY_ID[t[4]], *t[:4]) for t in probe]
        resps = []
        for t, rq in zip(probe, rqs):
            resp, _ = self.call(rq)
            resps.append((resp.status, resp.headers, resp.json,
                          vv['id'] if len(t) == 4 else t[4]))
        main = next((i for i, t in enumerate(probe) if len(t) == 4), 0)
        present, viol = judge_b(f, vv, resps, s, [template(t[0], t[1]) for t in probe], main)
        note = f.note(s, vv['applied'], resps) if f.note and present else None
        return {'status': resps[0][0], 'present': present, 'viol': viol, 'n': len(rqs),
                'note': note,
                'reqs': rqs if viol else None,
                'resp': {'status': resps[-1][0],
                         'body': json.dumps(resps[-1][2])[:400]} if viol else None}


def judge_table():
    """The declared routing table against the documented one (closes the space: an operation
    the service declares but the documentation does not know would otherwise go unprobed)."""
    from placement import handler
    from placement import microversion
    out = []
    declared = {(r, m) for r, ms in handler.ROUTE_DECLARATIONS.items() for m in ms}
    for r, m in sorted(declared - set(INTRODUCED) - UNDOCUMENTED):
        out.append(('undocumented-operation:%s %s' % (m, r),
                    'the service declares %s %s, which no documentation mentions' % (m, r)))
    for r, m in sorted(set(INTRODUCED) - declared):
        out.append(('undeclared-operation:%s %s' % (m, r),
                    'documented operation %s %s is not in the routing table' % (m, r)))
    if (microversion.min_version_string(), microversion.max_version_string()) != \
            (vstr(MINV), vstr(MAXV)):
        out.append(('version-range', 'service announces %s-%s, documentation 1.0-1.39' % (
            microversion.min_version_string(), microversion.max_version_string())))
    return out


def make_worker(base_image, *args):
    return Worker(base_image, *args)


# ---------------------------------------------------------------------------------------------
# run / replay
# ---------------------------------------------------------------------------------------------
def all_cases(states):
    cases = [{'part': 'T', 'state': states[0], 'vv': 'none'}]
    for k in states:
        for route in ROUTES:
            for method in METHODS:
                for vv in VV:
                    cases.append({'part': 'A', 'state': k, 'route': route, 'method': method,
                                  'vv': vv['id']})
        for f in FEATURES:
            for vid in VV_ACCEPTED_B:
                cases.append({'part': 'B', 'state': k, 'feature': f.id, 'vv': vid})
        for name in sorted(HEADER_PROBES):
            for vid in VV_ACCEPTED_B:
                cases.append({'part': 'H', 'state': k, 'probe': name, 'vv': vid})
    return cases


def selftest(states):
    """Every filter probe must be able to tell 'applied' from 'ignored' in every state."""
    for k in states:
        s = S(state_spec(k))
        for fid, expect, base in FILTERS:
            if expect(s) == base(s):
                raise HarnessError('filter probe %r cannot discriminate in state %d' % (fid, k))
        if not s.nested_pairs():
            raise HarnessError('state %d has no nested candidates' % k)


def run(ctx):
    states = [0] if ctx.quick else [0, 1, 2]
    selftest(states)
    cases = all_cases(states)
    evaluations = 0
    cells = set()
    hist = {}
    feat_cells = set()
    hcells = set()
    per_feature = {}
    allow_self = 0
    notes = {}
    samples = []
    for c, res in zip(cases, vpenum.run_cases(ctx, 'vp.props.c14', cases, chunk=60)):
        evaluations += res['n']
        vv = VV_BY_ID[c['vv']]
        if c['part'] == 'T':
            pass
        elif c['part'] == 'H':
            hcells.add((c['probe'], c['vv'], res['status']))
        elif c['part'] == 'A':
            hist.setdefault(c['method'], {})
            hist[c['method']][str(res['status'])] = \
                hist[c['method']].get(str(res['status']), 0) + 1
            if vv['applied'] is not None:
                cells.add((c['route'], c['method'], c['vv'], res['status']))
            if res.get('allow_self'):
                allow_self += 1
            if len(samples) < 3 and c['vv'] in ('1.4', '1.5', '2.0') and \
                    c['method'] == 'DELETE' and c['route'].endswith('{uuid}/inventories'):
                samples.append({'part': 'A', 'case': c, 'status': res['status']})
        else:
            feat_cells.add((c['feature'], c['vv'], res['present']))
            if res.get('note'):
                notes[res['note']] = notes.get(res['note'], 0) + 1
            row = per_feature.setdefault(c['feature'], {})
            if c['state'] == states[0]:
                row[c['vv']] = res['present']
            if len(samples) < 6 and c['vv'] in ('1.14', '1.15') and \
                    c['feature'].startswith('1.15 '):
                samples.append({'part': 'B', 'case': c, 'present': res['present'],
                                'status': res['status']})
        for sig, msg in res['viol']:
            if sig.startswith('note:'):
                notes[sig] = notes.get(sig, 0) + 1
                continue
            ctx.violation(sig, '%s [%s]' % (msg, c['vv']), {
                'case': c, 'setup': setup_requests(state_spec(c['state'])),
                'requests': res['reqs'], 'response': res['resp'], 'signature_checked': sig})
    # presence windows as observed, e.g. "1.15-1.39+latest"
    windows = {}
    order = VV_ACCEPTED_B
    for fid, row in per_feature.items():
        on = [x for x in order if row.get(x)]
        windows[fid] = '%s..%s (%d of %d)' % (on[0], on[-1], len(on), len(order)) if on \
            else 'never'
    ctx.level = 'exploration'
    ctx.coverage.update({
        'evaluations': evaluations,
        'distinct_nontrivial': len(cells) + len(feat_cells) + len(hcells),
        'part_h_cells': len(hcells),
        'rule': 'closed table, enumerated completely: Part A = %d version values x %d route '
                'templates (all declared ones + 1 unknown) x %d methods per state, each request '
                'valid for its version per the api-ref; Part B = %d feature probes x %d '
                'accepted version values per state. A cell is counted as non-trivial when the '
                'requested version was accepted (the request reached routing); distinct = '
                'distinct (route, method, version value, status) cells of Part A plus distinct '
                '(feature, version value, present?) cells of Part B; Part H = %d error probes x '
                'the same version values, judged on status and version headers'
                % (len(VV), len(ROUTES), len(METHODS), len(FEATURES), len(VV_ACCEPTED_B),
                   len(HEADER_PROBES)),
        'samples': samples,
        'exhaustive': True,
        'db_states': len(states),
        'part_a_cells': len(cells),
        'part_b_cells': len(feat_cells),
        'features': len(FEATURES),
        'feature_versions_covered': sorted({vstr(f.since) for f in FEATURES},
                                           key=lambda x: int(x.split('.')[1])),
        'status_histogram_by_method': hist,
        'observed_presence_windows': windows,
        'note_405_allow_lists_refused_method': allow_self,
        'notes_outside_scope': notes,
    })
    ctx.assumptions += [
        'oracle tables (INTRODUCED, normal_status, FEATURES) are hand-written from '
        'rest_api_version_history.rst and api-ref/source/*.inc + parameters.yaml',
        'POST /resource_providers/{uuid}/inventories is declared by the service but documented '
        'nowhere: availability not judged (headers and no-5xx are)',
        'HEAD/OPTIONS/PATCH are documented nowhere: 405 with Allow is accepted (HEAD may also '
        'mirror GET, OPTIONS may answer 200/204 with Allow); when a route does not exist yet '
        'and the method never exists, 404 and 405 are both accepted',
        'malformed version strings: 400 or 406 accepted (the property only speaks of 406 for '
        'well-formed versions outside 1.0-1.39)',
        'the Allow header of a 405 must contain the methods documented for the route at that '
        'version; whether it also lists the refused method is only counted '
        '(note_405_allow_lists_refused_method)',
        'admin caller, noauth2; SQLite stands in for the DBMS',
    ]


def replay(ctx, data):
    from vp import http
    from vp.boot import Harness
    from vp.snapshot import Dump
    h = Harness()
    c = data['case']
    spec = state_spec(c['state'])
    for rq in setup_requests(spec):
        r = http.call(h.app, rq)
        if r.status >= 400:
            sig0 = 'setup-refused:%s@1.39:%s' % (template(rq['method'], rq['path']), r.status)
            if sig0 == (data.get('signature_checked') or data.get('signature')):
                return False, 'reproduced: setup request %s %s answered %s' % (
                    rq['method'], rq['path'], r.status)
            raise HarnessError('replay setup failed: %s %s -> %s' % (
                rq['method'], rq['path'], r.status))
    d = Dump(h.dbfile)
    s = S(spec, {u: p['gen'] for u, p in d.providers.items()},
          {u: x['gen'] for u, x in d.consumers.items()})
    vv = VV_BY_ID[c['vv']]
    sig = data.get('signature_checked') or data.get('signature')
    if c['part'] == 'H':
        method, path, kw, _ = HEADER_PROBES[c['probe']]
        kw = dict(kw)
        resp = http.call(h.app, req(vv, method, path, kw.pop('body', None), **kw))
        viol = judge_h(c['probe'], vv, resp.status, resp.headers)
        last = resp.status
    elif c['part'] == 'A':
        path, body, query = a_request(s, c['route'], c['method'], vv['applied'] or MAXV)
        resp = http.call(h.app, req(vv, c['method'], path, body, query))
        viol = judge_a(c['route'], c['method'], vv, resp.status, resp.headers, resp.json)
        last = resp.status
    else:
        f = FEATURE_BY_ID[c['feature']]
        resps = []
        for t in f.probe(s, vv['applied']):
            rvv = vv if len(t) == 4 else VV_BY_ID[t[4]]
            resp = http.call(h.app, req(rvv, *t[:4]))
            resps.append((resp.status, resp.headers, resp.json, rvv['id']))
        pr = f.probe(s, vv['applied'])
        main = next((i for i, t in enumerate(pr) if len(t) == 4), 0)
        _, viol = judge_b(f, vv, resps, s, [template(t[0], t[1]) for t in pr], main)
        last = resps[main][0]
    hit = [m for g, m in viol if g == sig]
    if hit:
        return False, 'reproduced: %s (case %s, last status %s)' % (hit[0], c, last)
    return True, 'not reproduced: case %s answered %s; remaining findings: %s' % (
        c, last, [g for g, _ in viol])
