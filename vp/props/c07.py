"""C07 -- concurrent claims are serializable and never jointly over-commit (E-conc)."""
import itertools

from vp import explore_conc, reqs
from vp.names import A, K, P
from vp.props.c05 import fill

T1 = 'HW_CPU_X86_AVX'


def states(quick):
    two = {'total': 2}
    s0 = [reqs.mk_rp(1), reqs.mk_rp(2), reqs.put_invs(P(1), 0, {'VCPU': two}),
          reqs.put_invs(P(2), 0, {'VCPU': two})]
    # K9 on P2 only makes the project / user / consumer-type rows exist: claims racing from a
    # database without them also race for the creation of those rows (8 more small write
    # transactions per request, 25x the schedules) -- kept as one thorough scenario ('virgin')
    s1 = s0 + [reqs.put_alloc(K(9), {P(2): {'VCPU': 1}})]
    s2 = [reqs.mk_rp(1), reqs.mk_rp(2), reqs.put_invs(P(1), 0, {'VCPU': {'total': 3}}),
          reqs.put_invs(P(2), 0, {'VCPU': two}), reqs.put_alloc(K(1), {P(1): {'VCPU': 1}})]
    s3 = s0 + [reqs.put_alloc(K(1), {P(1): {'VCPU': 2}})]
    s4 = [reqs.mk_rp(1), reqs.mk_rp(2, parent=P(1)),
          reqs.put_invs(P(1), 0, {'VCPU': {'total': 4, 'reserved': 1, 'max_unit': 2}}),
          reqs.put_invs(P(2), 0, {'VCPU': {'total': 3, 'allocation_ratio': 1.5}}),
          reqs.put_alloc(K(1), {P(1): {'VCPU': 1}, P(2): {'VCPU': 2}})]
    # (name, setup, P1 generation, K1 generation or None)
    # (.., P2 generation)
    out = [('cap2 empty', s1, 1, None, 2), ('cap3 K1 holds 1', s2, 2, 1, 1)]
    if not quick:
        out += [('cap2 full', s3, 2, 1, 1), ('nested constrained', s4, 2, 1, 2),
                ('virgin', s0, 1, None, 1)]
    return out


def ops(pg, g1, p2g=1):
    return [
        reqs.put_alloc(K(2), {P(1): {'VCPU': 2}}, cgen=None, tag='PUT K2 P1:2'),
        reqs.put_alloc(K(3), {P(1): {'VCPU': 1}}, cgen=None, tag='PUT K3 P1:1'),
        reqs.put_alloc(K(2), {P(1): {'VCPU': 1}, P(2): {'VCPU': 1}}, cgen=None,
                       tag='PUT K2 P1:1+P2:1'),
        reqs.put_alloc(K(1), {P(1): {'VCPU': 2}}, cgen=g1, tag='PUT K1 P1:2 (own generation)'),
        reqs.post_allocs({K(2): {'allocs': {P(1): {'VCPU': 1}}, 'cgen': None},
                          K(3): {'allocs': {P(1): {'VCPU': 1}}, 'cgen': None}},
                         tag='POST K2 P1:1,K3 P1:1'),
        reqs.put_invs(P(1), pg, {'VCPU': {'total': 1}}, tag='PUT inventories P1 shrink to 1'),
        reqs.put_invs(P(1), pg, {'VCPU': {'total': 4}}, tag='PUT inventories P1 grow to 4'),
        reqs.put_traits(P(1), pg, [T1], tag='PUT traits P1'),
        reqs.put_aggs(P(1), pg, [A(1)], tag='PUT aggregates P1'),
        reqs.del_inv(P(1), 'VCPU', tag='DELETE inventory P1/VCPU'),
        reqs.put_alloc(K(1), {}, cgen=g1, tag='PUT K1 clear (own generation)'),
        # a write to the provider a two-provider claim visits second: the claim's server-side
        # retries (independent re-reads while its own first bump is uncommitted) are all doomed
        reqs.put_invs(P(2), p2g, {'VCPU': {'total': 3}}, tag='PUT inventories P2 grow to 3'),
        reqs.put_alloc(K(3), {P(2): {'VCPU': 1}}, cgen=None, tag='PUT K3 P2:1'),
    ]


QUICK = [(0, 1), (0, 2), (0, 3), (0, 4), (0, 5), (0, 6), (1, 4), (2, 2), (2, 5), (3, 5), (3, 9),
         (4, 5), (4, 6), (5, 6), (5, 7), (0, 7), (0, 8), (7, 8), (0, 9), (1, 3), (2, 6),
         (3, 10), (0, 10), (5, 10), (2, 11), (2, 12)]


def scenarios(quick):
    out = []
    for name, setup, pg, g1, p2g in states(quick):
        o = ops(pg, g1, p2g)
        pairs = QUICK if quick else list(itertools.combinations_with_replacement(
            range(len(o)), 2))
        if name == 'virgin':
            pairs = [(0, 1), (2, 11)]
        for a, b in pairs:
            ra, rb = o[a], o[b]
            if a == b and 'allocations' in ra['path']:
                continue          # the same consumer write twice is C06's business
            if g1 is None and 10 in (a, b):
                continue          # nothing to clear
            out.append({'name': '%s: %s || %s' % (name, ra['tag'], rb['tag']), 'setup': setup,
                        'requests': [ra, rb], 'bound': None, 'max_exec': 6000})
        if not quick and name in ('cap3 K1 holds 1', 'nested constrained'):
            for a, b, c in [(0, 1, 5), (1, 3, 6), (0, 1, 2), (1, 4, 5), (5, 6, 7), (0, 7, 8),
                            (1, 3, 9), (2, 5, 8)]:
                out.append({'name': '%s: %s || %s || %s' % (name, o[a]['tag'], o[b]['tag'],
                                                            o[c]['tag']),
                            'setup': setup, 'requests': [o[a], o[b], o[c]], 'bound': 2,
                            'max_exec': 6000})
    return out


def run(ctx):
    ctx.budget = ctx.budget or (200 if ctx.quick else 3000)
    sc = scenarios(ctx.quick)
    tot = explore_conc.run_scenarios(ctx, 'C07', sc)
    if not ctx.quick and not ctx.new_violations():
        # the same pairs with the server-side retry budget at its minimum: one conflict exhausts
        # it, so the fall-through paths behind the retry loop are reached by a single racing write
        sc1 = [dict(s, name='retry_count=1: ' + s['name']) for s in scenarios(True)]
        tot1 = explore_conc.run_scenarios(
            ctx, 'C07', sc1, conf={('placement', 'allocation_conflict_retry_count'): 1})
        for k in ('scenarios', 'executions', 'states', 'transitions', 'leaves'):
            tot[k] += tot1[k]
        tot['capped'] += tot1['capped']
        tot['samples'] = (tot['samples'] or [])[:3] + (tot1['samples'] or [])[:3]
        sc = sc + sc1
    fill(ctx, tot, len(sc), '%d start states (capacity 2 unused / capacity 3 partly used%s) x '
         'pairs (%s) of: allocation writes for different and the same consumers whose joint demand '
         'exceeds / equals / is below the free capacity, a multi-provider write, a POST /allocations '
         'batch, generation-guarded PUT inventories shrinking below / growing above the demand, PUT '
         'traits, PUT aggregates, DELETE inventory x ALL interleavings at top-level-transaction '
         'granularity%s' % (
             len(states(ctx.quick)), '' if ctx.quick else ' / full / nested with unit constraints '
             'and fractional ratio / a database without project, user and type rows (2 pairs)', '%d selected' % len(QUICK) if ctx.quick else 'all',
             '' if ctx.quick else '; plus 16 triples with preemption bound 2; plus the quick pairs once '
             'more under [placement]allocation_conflict_retry_count=1'))
    ctx.coverage['retry_path_note'] = (
        'scenarios_exercising_independent_reread counts scenarios in which replace_all() entered '
        'its server-side retry and re-read the provider in an independent transaction')


def replay(ctx, data):
    return explore_conc.replay(ctx, data)
