"""C05 -- a write guarded by a provider generation succeeds only against that generation (E-conc)."""
import itertools

from vp import explore_conc, reqs
from vp.http import R
from vp.names import A, K, P

T1 = 'HW_CPU_X86_AVX'
T2 = 'HW_CPU_X86_AVX2'


def states():
    # K9 on P2 only makes the project / user / consumer-type rows exist, so that allocation
    # writes racing here do not also race for creating them (that race is C06's and C12's)
    s1 = [reqs.mk_rp(1), reqs.mk_rp(2), reqs.put_invs(P(2), 0, {'VCPU': {'total': 4}}),
          reqs.put_alloc(K(9), {P(2): {'VCPU': 1}})]
    s2 = s1 + [reqs.put_invs(P(1), 0, {'VCPU': {'total': 4}})]
    s3 = s2 + [reqs.put_traits(P(1), 1, [T1]), reqs.put_aggs(P(1), 2, [A(1)]),
               reqs.put_alloc(K(1), {P(1): {'VCPU': 1}})]
    return [('bare', s1, 0, set(), False), ('inventory', s2, 1, set(), True),
            ('in-use', s3, 4, {T1}, True)]


def ops(g, traits, has_inv):
    stale = g - 1 if g > 0 else g + 1
    cur_traits = sorted(traits)
    o = [
        reqs.put_invs(P(1), g, {'VCPU': {'total': 8}}, tag='PUT inventories(g)'),
        reqs.put_invs(P(1), stale, {'VCPU': {'total': 9}}, tag='PUT inventories(stale)'),
        reqs.put_inv(P(1), 'VCPU', g, {'total': 6}, tag='PUT inventory VCPU(g)'),
        reqs.post_inv(P(1), 'DISK_GB', {'total': 10}, tag='POST inventory DISK_GB'),
        reqs.del_inv(P(1), 'VCPU', tag='DELETE inventory VCPU'),
        reqs.del_invs(P(1), tag='DELETE inventories'),
        reqs.put_traits(P(1), g, [T2], tag='PUT traits(g) change'),
        reqs.put_traits(P(1), g, cur_traits, tag='PUT traits(g) no-op'),
        reqs.put_traits(P(1), stale, [T2], tag='PUT traits(stale)'),
        reqs.del_traits(P(1), tag='DELETE traits'),
        reqs.put_aggs(P(1), g, [A(2)], tag='PUT aggregates(g)'),
        reqs.put_aggs(P(1), g, [A(3)], mv='1.18', tag='PUT aggregates@1.18'),
        reqs.reshaper({P(1): (g, {'VCPU': {'total': 8}})}, {}, tag='reshaper(g)'),
        reqs.put_alloc(K(2), {P(1): {'VCPU': 1}}, tag='PUT allocations K2 on P1'),
        # the provider is named both in the reshaper's inventories and in its allocations (the
        # handler reads it twice)
        reqs.reshaper({P(1): (g, {'VCPU': {'total': 7}})},
                      {K(4): {'allocs': {P(1): {'VCPU': 1}}, 'cgen': None}},
                      tag='reshaper(g) with allocations on P1'),
        # a write that carries no generation and must leave it alone, in flight with the others
        R('PUT', '/resource_providers/' + P(1), {'name': 'renamed-p1'}, mv='1.39',
          tag='PUT provider (rename)'),
        # a generation the provider has not reached yet (held from an earlier incarnation, or
        # guessed): only valid if another write makes it current before the commit
        reqs.put_invs(P(1), g + 1, {'VCPU': {'total': 5}}, tag='PUT inventories(g+1)'),
        reqs.put_traits(P(1), g + 1, [T1, T2], tag='PUT traits(g+1)'),
        reqs.put_aggs(P(1), g + 1, [A(1), A(2)], tag='PUT aggregates(g+1)'),
        reqs.reshaper({P(1): (g + 1, {'VCPU': {'total': 5}})}, {}, tag='reshaper(g+1)'),
        # writes that leave the provider without inventory (nothing to add or update): the
        # generation must be compared and moved all the same
        reqs.put_invs(P(1), g, {}, tag='PUT inventories(g) empty'),
        reqs.put_invs(P(1), stale, {}, tag='PUT inventories(stale) empty'),
        reqs.reshaper({P(1): (g, {})}, {}, tag='reshaper(g) emptying P1'),
        reqs.reshaper({P(1): (stale, {})}, {}, tag='reshaper(stale) emptying P1'),
        # ... and clearing the consumer that uses it (the allocation writer inside the reshape
        # re-reads providers when it retries; the final inventory step must not)
        reqs.reshaper({P(1): (g, {})}, {K(1): {'allocs': {}, 'cgen': 1}},
                      tag='reshaper(g) emptying P1 and clearing K1'),
    ]
    return o


def scenarios(quick, seed=0):
    out = []
    for name, setup, g, traits, has_inv in states():
        o = ops(g, traits, has_inv)
        idx = list(range(len(o)))
        pairs = list(itertools.combinations_with_replacement(idx, 2))
        for a, b in pairs:
            ra, rb = dict(o[a]), dict(o[b])
            if a == b:
                # two in-flight copies of the same operation: give the consumer-writing one a
                # second consumer so the pair is meaningful
                if 'allocations/' in rb['path']:
                    rb = reqs.put_alloc(K(3), {P(1): {'VCPU': 1}}, tag='PUT allocations K3 on P1')
            out.append({'name': '%s: %s || %s' % (name, ra['tag'], rb['tag']),
                        'setup': setup, 'requests': [ra, rb], 'bound': None,
                        'max_exec': 4000})
        if not quick:
            # triples of the generation-carrying and generation-deriving writers
            # generation-carrying, generation-deriving and generation-less writers, incl. the
            # emptying writes and a not-yet-reached generation (15 = rename)
            tri = [0, 2, 4, 6, 10, 12, 13, 15, 16, 20, 22]
            for a, b, c in itertools.combinations(tri, 3):
                out.append({'name': '%s: %s || %s || %s' % (name, o[a]['tag'], o[b]['tag'],
                                                            o[c]['tag']),
                            'setup': setup, 'requests': [o[a], o[b], o[c]], 'bound': 3,
                            'max_exec': 3000})
    return out


def run(ctx):
    ctx.budget = ctx.budget or (170 if ctx.quick else 1800)
    sc = scenarios(ctx.quick, ctx.seed)
    tot = explore_conc.run_scenarios(ctx, 'C05', sc)
    fill(ctx, tot, len(sc), 'three start states (bare provider / inventory / inventory+traits+'
         'aggregates+consumer) x all unordered pairs (with repetition) of 25 provider-writing '
         'operations (PUT inventories, PUT inventory, POST/DELETE inventory, DELETE inventories, PUT '
         'traits changing/no-op, DELETE traits, PUT aggregates 1.19/1.18, reshaper, PUT allocations, '
         'PUT provider (rename, carries no generation); generation-carrying ones with current, stale and not-yet-'
         'reached generation) x ALL interleavings at '
         'top-level-transaction granularity%s' % (
             '' if ctx.quick else '; plus triples with preemption bound 3'))


def fill(ctx, tot, nscen, rule):
    ctx.level = 'model_checking'
    ctx.coverage.update({
        'states': tot['states'], 'transitions': tot['transitions'],
        'traces_validated_against_impl': tot['executions'],
        'schedules_executed': tot['executions'], 'distinct_complete_schedule_classes': tot['leaves'],
        'scenarios': tot['scenarios'], 'scenarios_planned': nscen,
        'scenarios_capped': tot['capped'],
        'scenarios_with_a_single_outcome_vector': len(tot['single_outcome']),
        'scenarios_exercising_independent_reread': tot['nested_read_scenarios'],
        'max_preemptions_in_a_schedule': tot['max_preemptions'],
        'determinism_checks': tot['determinism_checks'],
        'samples': tot['samples'] or [{}],
        'exhaustive': not tot['capped'] and not ctx.caps,
        'rule': rule + '; every complete schedule class is judged: no 5xx, the successful requests '
                'are equivalent (all tables, generations included) to one of their serial orders '
                'run on the same snapshot, losers answer 409 placement.concurrent_update or an '
                'answer of a serial order, a successful generation-carrying write saw exactly the '
                'carried generation at the begin of its committing transaction, at most one winner '
                'per carried generation',
    })
    ctx.assumptions += ['each top-level transaction is atomic and isolated (serializable DBMS)',
                        'switch points are top-level transaction begins only']
    for n in tot['capped']:
        ctx.cap('execution cap hit in scenario %s' % n)


def replay(ctx, data):
    return explore_conc.replay(ctx, data)
