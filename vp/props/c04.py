"""C04 -- rejected writes leave no trace; multi-entity writes are all-or-nothing.

E-seq over a small world; in every explored state, every request of a failure-placement
generator: each valid multi-entity write with exactly element i broken in every failure kind
(thorough: also a second failure at j > i).
"""
import copy

from vp import explore_seq, reqs, world
from vp.http import R, SERVICE
from vp.names import A, K, P, UNKNOWN_UUID
from vp.props.c01 import fill
from vp.world import cgen_of, gen_of

INV1 = {'total': 4, 'reserved': 1, 'min_unit': 1, 'max_unit': 2, 'step_size': 1,
        'allocation_ratio': 1.0}
INV2 = {'total': 4}
STD_TRAITS3 = ['HW_CPU_X86_AVX', 'HW_CPU_X86_AVX2', 'STORAGE_DISK_SSD']


def _break_alloc(entry_allocs, rp, kind):
    """Return broken copy of {rp: {rc: amt}} with the element on `rp` broken."""
    a = copy.deepcopy(entry_allocs)
    if kind == 'unknown-provider':
        a[UNKNOWN_UUID] = a.pop(rp)
    elif kind == 'unknown-class':
        a[rp] = {'CUSTOM_NOPE': 1}
    elif kind == 'no-inventory':
        a[rp] = {'MEMORY_MB': 1}
    elif kind == 'over-capacity':
        a[rp] = {'VCPU': 5}
    elif kind == 'unit-violation':
        a[rp] = {'VCPU': 3}          # > max_unit 2 on P1; exceeds nothing else on P2 (cap 4)
    elif kind == 'schema-zero':
        a[rp] = {'VCPU': 0}
    elif kind == 'schema-string':
        a[rp] = {'VCPU': 'x'}
    return a


ALLOC_KINDS = ['unknown-provider', 'unknown-class', 'no-inventory', 'over-capacity',
               'unit-violation', 'schema-zero', 'schema-string']


class Spec(object):
    def __init__(self, pairs=False, nconsumers=3):
        self.pairs = pairs
        self.consumers = [K(i) for i in range(1, nconsumers + 1)]

    def starts(self):
        base = [reqs.mk_rp(1), reqs.mk_rp(2, parent=P(1)),
                reqs.put_invs(P(1), 0, {'VCPU': INV1, 'DISK_GB': INV2}),
                reqs.put_invs(P(2), 0, {'VCPU': INV2})]
        used = base + [reqs.put_alloc(K(1), {P(1): {'VCPU': 1, 'DISK_GB': 1}}),
                       reqs.put_alloc(K(2), {P(2): {'VCPU': 2}}, project='p2', user='u2',
                                      ctype='MIGRATION'),
                       reqs.put_traits(P(1), 2, STD_TRAITS3[:1]),
                       reqs.put_aggs(P(1), 3, [A(1)])]
        return [('inventories', base), ('in-use', used)]

    def canon(self, d):
        return d.key(gens=False)

    # -- state-changing part of the alphabet (kept small) -----------------------------------
    def moves(self, d):
        out = []
        for k in self.consumers[:2]:
            cg = cgen_of(d, k)
            out.append(reqs.put_alloc(k, {P(1): {'VCPU': 1}}, cgen=cg, tag='PUT alloc P1:1'))
            out.append(reqs.put_alloc(k, {P(1): {'VCPU': 2}, P(2): {'VCPU': 2}}, cgen=cg,
                                      tag='PUT alloc P1:2+P2:2'))
            out.append(reqs.put_alloc(k, {}, cgen=cg, tag='PUT alloc {}'))
        for rp in (P(1), P(2)):
            g = gen_of(d, rp)
            out.append(reqs.put_invs(rp, g, {'VCPU': INV2}, tag='PUT inventories {VCPU:4}'))
            out.append(reqs.put_invs(rp, g, {}, tag='PUT inventories {}'))
            out.append(reqs.put_traits(rp, g, STD_TRAITS3[:2], tag='PUT rp traits'))
            out.append(reqs.put_aggs(rp, g, [A(1), A(2)], tag='PUT aggregates'))
        return out

    # -- failure placement ------------------------------------------------------------------
    def failures(self, d):
        out = []
        cons = self.consumers
        # T1: POST /allocations, m consumers x 2 providers
        valid = {k: {P(1): {'VCPU': 1}, P(2): {'VCPU': 1}} for k in cons}

        def post(allocs_by_c, gens=None, tag=None, mv='1.38'):
            ent = {}
            for i, k in enumerate(cons):
                ent[k] = {'allocs': allocs_by_c[k],
                          'cgen': (gens or {}).get(k, cgen_of(d, k)),
                          'project': 'p%d' % (i % 2 + 1), 'user': 'u%d' % (i % 2 + 1)}
            return reqs.post_allocs(ent, mv=mv, tag=tag)
        out.append(post(valid, tag='T1 valid'))
        elems = [(k, rp) for k in cons for rp in (P(1), P(2))]
        for i, (k, rp) in enumerate(elems):
            for kind in ALLOC_KINDS:
                a = copy.deepcopy(valid)
                a[k] = _break_alloc(a[k], rp, kind)
                out.append(post(a, tag='T1 %s @%d' % (kind, i)))
                if self.pairs:
                    for j in range(i + 1, len(elems)):
                        k2, rp2 = elems[j]
                        if k2 == k and kind == 'unknown-provider' and rp2 == rp:
                            continue
                        b = copy.deepcopy(a)
                        b[k2] = _break_alloc(b[k2], rp2 if rp2 in b[k2] else list(b[k2])[0],
                                             'over-capacity')
                        out.append(post(b, tag='T1 %s @%d + over-capacity @%d' % (kind, i, j)))
        for i, k in enumerate(cons):
            out.append(post(valid, gens={k: cgen_of(d, k, stale=True)},
                            tag='T1 stale consumer generation @%d' % i))
            if k in d.consumers:
                out.append(post(valid, gens={k: None},
                                tag='T1 null generation for existing consumer @%d' % i))
        # T2: reshaper, 2 providers, 2 consumers
        g1, g2 = gen_of(d, P(1)), gen_of(d, P(2))
        inv1 = {rc: world._strip(i) for (r, rc), i in d.inventories.items() if r == P(1)}
        inv2 = {rc: world._strip(i) for (r, rc), i in d.inventories.items() if r == P(2)}
        inv1.setdefault('VCPU', INV1)
        inv2.setdefault('VCPU', INV2)

        def resh(i1, i2, ga, gb, allocs, tag, gens=None):
            ent = {k: {'allocs': allocs[k], 'cgen': (gens or {}).get(k, cgen_of(d, k))}
                   for k in allocs}
            return reqs.reshaper({P(1): (ga, i1), P(2): (gb, i2)}, ent, tag=tag)
        two = {k: {P(1): {'VCPU': 1}, P(2): {'VCPU': 1}} for k in cons[:2]}
        out.append(resh(inv1, inv2, g1, g2, two, 'T2 valid'))
        out.append(resh(inv1, inv2, g1 + 1, g2, two, 'T2 stale provider generation @0'))
        out.append(resh(inv1, inv2, g1, g2 + 1, two, 'T2 stale provider generation @1'))
        bad = dict(inv2)
        bad['CUSTOM_NOPE'] = INV2
        out.append(resh(inv1, bad, g1, g2, two, 'T2 unknown class in inventory @1'))
        out.append(reqs.reshaper({P(1): (g1, inv1), UNKNOWN_UUID: (0, inv2)},
                                 {k: {'allocs': two[k], 'cgen': cgen_of(d, k)} for k in two},
                                 tag='T2 unknown provider in inventories'))
        out.append(resh({}, inv2, g1, g2, {k: {P(2): {'VCPU': 1}} for k in cons[:1]},
                        'T2 drops inventory another consumer may use'))
        for i, (k, rp) in enumerate([(k, rp) for k in cons[:2] for rp in (P(1), P(2))]):
            for kind in ('unknown-provider', 'no-inventory', 'over-capacity', 'unit-violation'):
                a = copy.deepcopy(two)
                a[k] = _break_alloc(a[k], rp, kind)
                out.append(resh(inv1, inv2, g1, g2, a, 'T2 %s @%d' % (kind, i)))
        for i, k in enumerate(cons[:2]):
            out.append(resh(inv1, inv2, g1, g2, two, 'T2 stale consumer generation @%d' % i,
                            gens={k: cgen_of(d, k, stale=True)}))
        # T3: PUT inventories with 3 classes
        three = {'VCPU': dict(INV1), 'DISK_GB': dict(INV2), 'MEMORY_MB': dict(INV2)}
        out.append(reqs.put_invs(P(1), g1, three, tag='T3 valid'))
        for i, rc in enumerate(sorted(three)):
            b = copy.deepcopy(three)
            b['CUSTOM_NOPE'] = b.pop(rc)
            out.append(reqs.put_invs(P(1), g1, b, tag='T3 unknown class @%d' % i))
            b = copy.deepcopy(three)
            b[rc]['total'] = 0
            out.append(reqs.put_invs(P(1), g1, b, tag='T3 schema violation @%d' % i))
            b = copy.deepcopy(three)
            b[rc]['reserved'] = b[rc]['total'] + 1
            out.append(reqs.put_invs(P(1), g1, b, tag='T3 reserved>total @%d' % i))
            b = copy.deepcopy(three)
            del b[rc]
            out.append(reqs.put_invs(P(1), g1, b, tag='T3 drop class (maybe in use) @%d' % i))
        out.append(reqs.put_invs(P(1), g1 + 1, three, tag='T3 stale generation'))
        # T4: PUT traits with 3 traits
        out.append(reqs.put_traits(P(1), g1, STD_TRAITS3, tag='T4 valid'))
        for i in range(3):
            b = list(STD_TRAITS3)
            b[i] = 'CUSTOM_NOPE'
            out.append(reqs.put_traits(P(1), g1, b, tag='T4 unknown trait @%d' % i))
            b = list(STD_TRAITS3)
            b[i] = ''
            out.append(reqs.put_traits(P(1), g1, b, tag='T4 schema violation @%d' % i))
        out.append(reqs.put_traits(P(1), g1 + 1, STD_TRAITS3, tag='T4 stale generation'))
        # T5: PUT aggregates with 3 uuids
        aggs = [A(1), A(2), A(3)]
        out.append(reqs.put_aggs(P(1), g1, aggs, tag='T5 valid'))
        for i in range(3):
            b = list(aggs)
            b[i] = 'not-a-uuid'
            out.append(reqs.put_aggs(P(1), g1, b, tag='T5 schema violation @%d' % i))
        out.append(reqs.put_aggs(P(1), g1, aggs + [A(1)], tag='T5 duplicate member'))
        out.append(reqs.put_aggs(P(1), g1 + 1, aggs, tag='T5 stale generation'))
        out.append(reqs.put_aggs(P(1), g1, aggs, mv='1.1', tag='T5 valid@1.1'))
        # single-entity PUT /allocations variants (stage coverage of the multi-transaction handler)
        k = cons[0]
        for kind in ALLOC_KINDS:
            a = _break_alloc({P(1): {'VCPU': 1}, P(2): {'VCPU': 1}}, P(2), kind)
            for mv in ('1.12', '1.38'):
                out.append(reqs.put_alloc(k, a, mv=mv, cgen=cgen_of(d, k), project='p2',
                                          user='u2', ctype='MIGRATION',
                                          tag='PUT alloc %s@%s' % (kind, mv)))
            fresh = K(9)
            out.append(reqs.put_alloc(fresh, a, cgen=None, tag='PUT alloc new consumer ' + kind))
        return out

    def alphabet(self, d):
        return self.moves(d) + self.failures(d)

    def on_transition(self, pre, req, resp, run, post):
        v = world.oracle_c04_rejected(pre, req, resp, post)
        v += world.oracle_effect(pre, req, resp, post)
        if resp.status >= 500:
            v.append(('c04-5xx:%s' % req.get('tag'), '%s answered %s' % (req.get('tag'),
                                                                        resp.status)))
        return v

    def on_state(self, d, h, call):
        return []


def run(ctx):
    if ctx.quick:
        depth, args = 2, (False, 3)
        ctx.budget = ctx.budget or 170
    else:
        depth, args = 3, (True, 3)
        ctx.budget = ctx.budget or 1500
    st = explore_seq.explore(ctx, 'vp.props.c04', 'Spec', args, max_depth=depth)
    rej = {}
    for t, c in st['outcomes'].items():
        fam = t.split(' @')[0]
        for s, n in c.items():
            rej.setdefault(fam, {})
            rej[fam][s] = rej[fam].get(s, 0) + n
    fill(ctx, st, 'in every state of a BFS over allocation/inventory/trait/aggregate writes, every '
         'request of a failure-placement generator: POST /allocations (3 consumers x 2 providers), '
         'reshaper (2 providers, 2 consumers), PUT inventories (3 classes), PUT traits (3), PUT '
         'aggregates (3), each with element i broken in every failure kind%s; oracle: status>=400 '
         '=> all tables incl. generations unchanged except projects/users/consumer_types; 2xx => '
         'what the request names is exactly what is stored' % (
             ' and a second failure at j>i' if args[0] else ''))
    ctx.coverage['outcomes_per_failure_family'] = rej


def replay(ctx, data):
    return explore_seq.replay(ctx, data)
