"""C13 -- provider listing filters select exactly the matching providers.

E-enum: every database state of a bounded scope (vp/scope.py: six base topologies x every set of
<= k decoration deltas) x a finite grammar of filter combinations of GET /resource_providers, each
executed through the real WSGI pipeline and compared with `rp_filter_oracle`, a literal
transcription of the property statement over the raw rows (vp.snapshot.Dump).

Oracle sources: the property statement; api-ref/source/resource_providers.inc ("the results of all
filters are merged with a boolean AND", 400 for an unknown resource class); parameters.yaml
(resource_provider_member_of, resource_provider_required_query, resource_provider_tree_query,
resources_query_1_4, inventory fields min_unit / max_unit / step_size / reserved /
allocation_ratio); rest_api_version_history.rst 1.3, 1.4 (note on min_unit, max_unit, step_size),
1.14, 1.18 (unknown trait -> 400), 1.22, 1.24, 1.32, 1.39.  Nothing is copied from
placement/objects: the oracle is one loop over the Dump rows, capacity in IEEE doubles.

Query grammar (per state, all values are concrete strings derived from the state's *focus*: the
provider / class / trait / aggregate its decoration touched; a base state is evaluated under
several foci):
  name      existing | unknown | empty string | existing with a leading / trailing blank
  uuid      existing | unknown
  in_tree   the focus provider (a root or a child) | a provider of another tree | unknown uuid
  member_of A | in:A,B | !A | !in:B,C | UNK | in:UNK,B | A & C (repeated) | in:A,C & !B |
            !UNK | A & !A
  required  T | T,U | in:T,U | !T | U,!S | in:T,S & !C (repeated) | unknown | in:T,unknown |
            !unknown                      (T = HW_CPU_X86_AVX, U = CUSTOM_T_B, S = sharing trait,
                                           C = CUSTOM_T_C)
  resources c:1 c:2 c:3 c:4 c:5 c:8 c:9 | c:2,d:3 | unknown class | c:1,unknown   (c = focus class;
            the baseline templates and the inventory variants make these amounts hit: fits, fits
            exactly, exceeds capacity only, min_unit only, max_unit only, step_size only, and both
            sides of the fractional boundary 3.5)
and their combinations (see `queries`): singles, all pairs, (thorough) triples, all-six-active over
a reduced menu, at 1.39 and at 1.3 / 1.4 / 1.14 / 1.18 / 1.22 / 1.24 / 1.32 / 1.38 for the values
introduced or changed there (never below a value's introduction: that is C14's table).
"""
import collections
import itertools
from urllib.parse import quote

from vp import http
from vp import scope
from vp.enum import EnumWorker
from vp.http import R
from vp.names import P, SHARING, UNKNOWN_UUID, pname

UNK_AGG = 'aaaaaaaa-0000-4000-8000-ffffffffffff'
NOPE_TRAIT = 'CUSTOM_NOPE'
NOPE_CLASS = 'CUSTOM_NOPE'
T, U, S, C = scope.T_A, scope.T_B, SHARING, scope.T_C
AG_A, AG_B, AG_C = scope.AGGS
KINDS = ('name', 'uuid', 'in_tree', 'member_of', 'required', 'resources')
VERSIONS = ('1.3', '1.4', '1.14', '1.18', '1.22', '1.24', '1.32', '1.38')
LATEST = '1.39'
AMOUNTS = (1, 2, 3, 4, 5, 8, 9)
BASE_PARTS = 8
# values that select nothing / everything (or are answered 400) in every state, by construction
BY_CONSTRUCTION = frozenset([
    'member_of=!UNK', 'name=unknown', 'name=empty', 'name=padded-left', 'name=padded-right', 'uuid=unknown', 'in_tree=unknown', 'member_of=UNK',
    'member_of=A&!A', 'required=unknown', 'required=in:T,unknown', 'required=!unknown', 'required=T,unknown',
    'required=!T,!unknown',
    'resources=unknown', 'resources=c:1,unknown'])


def ver(mv):
    a, b = mv.split('.')
    return (int(a), int(b))


# =========================================================================================
# 1. The oracle: the property statement over raw rows
# =========================================================================================
# filters (structured, independent of the query-string syntax):
#   {'name': str, 'uuid': str, 'in_tree': str,
#    'member_of': [['any' | 'not', [agg uuid, ...]], ...]        one entry per parameter
#    'required':  [['in', [trait, ...]] | ['list', [required...], [forbidden...]], ...]
#    'resources': [[class, amount], ...]}

def room_reasons(dump, used, rp, rc, amount):
    """Which documented conditions deny `amount` of rc on rp (empty set = there is room);
    None when the provider has no inventory of that class."""
    i = dump.inventories.get((rp, rc))
    if i is None:
        return None
    why = set()
    cap = (i['total'] - i['reserved']) * float(i['allocation_ratio'])
    if used.get((rp, rc), 0) + amount > cap:
        why.add('capacity')
    if amount < i['min_unit']:
        why.add('min_unit')
    if amount > i['max_unit']:
        why.add('max_unit')
    if amount % i['step_size'] != 0:
        why.add('step_size')
    return why


def rp_filter_oracle(dump, f, reasons=None):
    """-> (want_400: bool, matching uuid set, empty_clause: bool).

    want_400: an unknown trait or resource class is named.  empty_clause: one of the statement's
    explicit "yields an empty list" clauses applies (in_tree / uuid naming no provider, a
    member_of value naming only unknown aggregates); when both hold the statement is ambiguous
    and either answer is accepted.
    """
    want_400 = False
    for param in f.get('required', ()):
        names = param[1] if param[0] == 'in' else list(param[1]) + list(param[2])
        if any(t not in dump.traits for t in names):
            want_400 = True
    for rc, _ in f.get('resources', ()):
        if rc not in dump.classes:
            want_400 = True
    known_aggs = set(dump.aggs) | {a for _, a in dump.rp_aggs}
    empty_clause = (
        ('in_tree' in f and f['in_tree'] not in dump.providers) or
        ('uuid' in f and f['uuid'] not in dump.providers) or
        any(op == 'any' and not (set(aggs) & known_aggs) for op, aggs in f.get('member_of', ())))
    used = dump.used()
    out = set()
    for u, p in dump.providers.items():
        if 'name' in f and p['name'] != f['name']:
            continue
        if 'uuid' in f and u != f['uuid']:
            continue
        if 'in_tree' in f:
            if f['in_tree'] not in dump.providers or u not in dump.tree_of(f['in_tree']):
                continue
        ok = True
        for op, aggs in f.get('member_of', ()):
            member = any((u, a) in dump.rp_aggs for a in aggs)
            if (op == 'any') != member:
                ok = False
        for param in f.get('required', ()):
            if param[0] == 'in':
                if not any((u, t) in dump.rp_traits for t in param[1]):
                    ok = False
            else:
                if not all((u, t) in dump.rp_traits for t in param[1]):
                    ok = False
                if any((u, t) in dump.rp_traits for t in param[2]):
                    ok = False
        if not ok:
            continue
        for rc, amount in f.get('resources', ()):
            why = room_reasons(dump, used, u, rc, amount)
            if reasons is not None and why is not None:
                i = dump.inventories[(u, rc)]
                exact = (not why and used.get((u, rc), 0) + amount ==
                         (i['total'] - i['reserved']) * float(i['allocation_ratio']))
                reasons['+'.join(sorted(why)) or ('fits-exactly' if exact else 'fits')] += 1
            if why is None or why:
                ok = False
        if ok:
            out.add(u)
    return want_400, out, empty_clause


# =========================================================================================
# 2. Query-string rendering (kept apart from the oracle)
# =========================================================================================

def _enc(s):
    return quote(s, safe=':,!')


def render(f):
    parts = []
    for k in ('name', 'uuid', 'in_tree'):
        if k in f:
            parts.append('%s=%s' % (k, _enc(f[k])))
    for op, aggs in f.get('member_of', ()):
        v = ('in:' if len(aggs) > 1 else '') + ','.join(aggs)
        parts.append('member_of=' + _enc(('!' if op == 'not' else '') + v))
    for param in f.get('required', ()):
        if param[0] == 'in':
            v = 'in:' + ','.join(param[1])
        else:
            v = ','.join(list(param[1]) + ['!' + t for t in param[2]])
        parts.append('required=' + _enc(v))
    if 'resources' in f:
        parts.append('resources=' + _enc(','.join('%s:%d' % (rc, a) for rc, a in f['resources'])))
    return '&'.join(parts)


# =========================================================================================
# 3. The filter grammar
# =========================================================================================

V = collections.namedtuple('V', 'kind label since payload mentions reduced pairable')


def menus(desc, fp, fc):
    """Value menus for a focus (provider index fp, class fc) -> {kind: [V]}"""
    sh = scope.shape(desc)
    froot = sh['root_of'][fp]
    others = [p['i'] for p in desc['providers'] if sh['root_of'][p['i']] != froot]
    # prefer a provider of the other kind (child if the focus is a root and vice versa)
    want_child = fp == froot
    pick = [i for i in others if (i != sh['root_of'][i]) == want_child] or others
    dc = 'DISK_GB' if fc == 'VCPU' else 'VCPU'
    m = {}
    m['name'] = [
        V('name', 'existing', (1, 0), pname(fp), (), True, True),
        V('name', 'unknown', (1, 0), 'no-such-provider', (), True, True),
        V('name', 'empty', (1, 0), '', (), False, True),
        # exact means exact: the same name with a blank before / after it names nobody
        V('name', 'padded-left', (1, 0), ' ' + pname(fp), (), False, False),
        V('name', 'padded-right', (1, 0), pname(fp) + ' ', (), False, False),
    ]
    m['uuid'] = [
        V('uuid', 'existing', (1, 0), P(fp), (), True, True),
        V('uuid', 'unknown', (1, 0), UNKNOWN_UUID, (), True, True),
    ]
    m['in_tree'] = [V('in_tree', 'focus-' + ('root' if fp == froot else 'child'), (1, 14), P(fp),
                      (), True, True)]
    if pick:
        o = pick[0]
        m['in_tree'].append(V('in_tree', 'other-' + ('root' if o == sh['root_of'][o] else 'child'),
                              (1, 14), P(o), (), True, True))
    m['in_tree'].append(V('in_tree', 'unknown', (1, 14), UNKNOWN_UUID, (), True, True))

    def mo(label, since, payload, reduced=False, pairable=True):
        mentions = tuple(sorted({a for _, aggs in payload for a in aggs}))
        return V('member_of', label, since, payload, mentions, reduced, pairable)
    m['member_of'] = [
        mo('A', (1, 3), [['any', [AG_A]]], True),
        mo('in:A,B', (1, 3), [['any', [AG_A, AG_B]]]),
        mo('!A', (1, 32), [['not', [AG_A]]], True),
        mo('!in:B,C', (1, 32), [['not', [AG_B, AG_C]]]),
        mo('UNK', (1, 3), [['any', [UNK_AGG]]], True),
        mo('in:UNK,B', (1, 3), [['any', [UNK_AGG, AG_B]]]),
        mo('A&C', (1, 24), [['any', [AG_A]], ['any', [AG_C]]]),
        mo('in:A,C&!B', (1, 32), [['any', [AG_A, AG_C]], ['not', [AG_B]]], True),
        mo('!UNK', (1, 32), [['not', [UNK_AGG]]], False, False),
        mo('A&!A', (1, 32), [['any', [AG_A]], ['not', [AG_A]]], False, False),
    ]

    def rq(label, since, payload, reduced=False, pairable=True):
        names = set()
        for param in payload:
            names |= set(param[1]) | (set(param[2]) if param[0] == 'list' else set())
        return V('required', label, since, payload, tuple(sorted(names)), reduced, pairable)
    m['required'] = [
        rq('T', (1, 18), [['list', [T], []]], True),
        rq('T,U', (1, 18), [['list', [T, U], []]]),
        rq('in:T,U', (1, 39), [['in', [T, U]]]),
        rq('!T', (1, 22), [['list', [], [T]]], True),
        rq('U,!S', (1, 22), [['list', [U], [S]]]),
        rq('in:T,S&!C', (1, 39), [['in', [T, S]], ['list', [], [C]]], True),
        rq('unknown', (1, 18), [['list', [NOPE_TRAIT], []]], True),
        rq('in:T,unknown', (1, 39), [['in', [T, NOPE_TRAIT]]], False, False),
        rq('!unknown', (1, 22), [['list', [], [NOPE_TRAIT]]], False, False),
        # one unknown name among known ones is as unknown as a lone one
        rq('T,unknown', (1, 18), [['list', [T, NOPE_TRAIT], []]], False, False),
        rq('!T,!unknown', (1, 22), [['list', [], [T, NOPE_TRAIT]]], False, False),
    ]

    def rs(label, payload, reduced=False, pairable=True):
        return V('resources', label, (1, 4), payload, (), reduced, pairable)
    m['resources'] = [rs('c:%d' % a, [[fc, a]], a in (1, 4, 5)) for a in AMOUNTS]
    m['resources'] += [
        rs('c:2,d:3', [[fc, 2], [dc, 3]]),
        rs('unknown', [[NOPE_CLASS, 1]], True),
        rs('c:1,unknown', [[fc, 1], [NOPE_CLASS, 1]], False, False),
    ]
    return m


def combine(values):
    f = {}
    for v in values:
        f[v.kind] = v.payload
    return f


def label_of(values):
    vs = sorted(values, key=lambda v: KINDS.index(v.kind))
    return tuple('%s=%s' % (v.kind, v.label) for v in vs)


class QuerySet(object):
    """Deduplicated (by microversion + query string) list of queries of one state."""

    def __init__(self):
        self.seen = set()
        self.items = []          # (labels tuple, mv, filters, query string)

    def add(self, values, mv=LATEST):
        if any(v.since > ver(mv) for v in values):
            return
        f = combine(values)
        qs = render(f)
        if (mv, qs) in self.seen:
            return
        self.seen.add((mv, qs))
        self.items.append((label_of(values), mv, f, qs))


def _relevant(m, delta):
    """(kind, values for single use, values for pairing) a decoration delta can influence."""
    if delta[0] in ('inv', 'use'):
        full = m['resources']
        return 'resources', full, [v for v in full if v.reduced]
    if delta[0] == 'trait':
        vals = [v for v in m['required'] if delta[2] in v.mentions]
        return 'required', vals, [v for v in vals if v.pairable]
    vals = [v for v in m['member_of'] if delta[2] in v.mentions]
    return 'member_of', vals, [v for v in vals if v.pairable]


def all_six(qs, m, full):
    """All six filters active, over a reduced menu (full: base states; else: decorated states)."""
    names = [v for v in m['name'] if v.label == 'existing' or (full and v.label == 'empty')]
    uu = [v for v in m['uuid'] if v.label == 'existing']
    it = [v for v in m['in_tree'] if v.label != 'unknown'][:2 if full else 1]
    mo = [v for v in m['member_of'] if v.label in ('A', '!A')]
    rq = [v for v in m['required'] if v.label in ('T', '!T')]
    rs = [v for v in m['resources'] if v.label in ('c:1', 'c:9')]
    for combo in itertools.product(names, uu, it, mo, rq, rs):
        qs.add(combo)


def version_queries(qs, m, pairs, rel_kind=None, rel_vals=None):
    """At each earlier version: the values introduced there (at 1.38: every `required` value that
    exists there), alone and -- on base states -- paired with every other filter valid there."""
    for mv in VERSIONS:
        v_ = ver(mv)
        for kind in KINDS:
            for x in m[kind]:
                if rel_kind is not None and (kind != rel_kind or x not in rel_vals):
                    continue
                changed = x.since == v_ or (mv == '1.38' and kind == 'required' and
                                            x.since <= v_)
                if not changed:
                    continue
                qs.add((x,), mv)
                if not pairs or not x.pairable:
                    continue
                for k2 in KINDS:
                    if k2 == kind:
                        continue
                    for y in m[k2]:
                        if y.pairable and y.since <= v_:
                            qs.add((x, y), mv)


def base_foci(desc):
    provs = [p['i'] for p in desc['providers']]
    second = provs[1]
    return [(i, 'VCPU') for i in provs] + [(second, rc) for rc in scope.CLASSES if rc != 'VCPU']


def queries(desc, thorough):
    """All queries evaluated on one state -> list of (labels, mv, filters, query string).

    base state (no decoration), under every focus of `base_foci`: every single value, every pair
      of values of two different filters, (thorough) every triple, the all-six-active
      combinations, and the earlier microversions (singles and pairs).
    one decoration: every value of the filter it can influence (`_relevant`) alone and at the
      earlier microversions; its pairing values x (quick: the reduced / thorough: the full) menu
      of every other filter; (thorough) x every pair of reduced values of two other filters; the
      all-six-active combinations around the decorated provider.
    two decorations (thorough): for each, the relevant values alone; the pairing values of the
      one x those of the other when they influence different filters; two-class `resources`
      when they touch two classes of one provider; pairing values x one value of every other
      filter.
    """
    qs = QuerySet()
    deltas = [tuple(d) for d in desc['deltas']]
    if not deltas:
        for fp, fc in base_foci(desc):
            m = menus(desc, fp, fc)
            for k in KINDS:
                for x in m[k]:
                    qs.add((x,))
            for k1, k2 in itertools.combinations(KINDS, 2):
                for x in m[k1]:
                    for y in m[k2]:
                        if x.pairable and y.pairable:
                            qs.add((x, y))
            if thorough:
                for ks in itertools.combinations(KINDS, 3):
                    for combo in itertools.product(*[[v for v in m[k] if v.pairable]
                                                     for k in ks]):
                        qs.add(combo)
            all_six(qs, m, True)
            version_queries(qs, m, True)
        return qs.items
    rel = []
    for d in deltas:
        fc = d[2] if d[0] in ('inv', 'use') else 'VCPU'
        m = menus(desc, d[1], fc)
        kind, singles, pairvals = _relevant(m, d)
        rel.append((m, kind, singles, pairvals, d))
        for x in singles:
            qs.add((x,))
        others = [k for k in KINDS if k != kind]
        if len(deltas) == 1:
            for x in pairvals:
                for k2 in others:
                    for y in m[k2]:
                        if y.pairable and (thorough or y.reduced):
                            qs.add((x, y))
            if thorough:
                for k2, k3 in itertools.combinations(others, 2):
                    for x in pairvals:
                        for y in m[k2]:
                            for z in m[k3]:
                                if y.reduced and z.reduced:
                                    qs.add((x, y, z))
            all_six(qs, m, False)
            version_queries(qs, m, False, kind, singles if thorough else pairvals)
        else:
            for x in pairvals:
                for k2 in others:
                    qs.add((x, [y for y in m[k2] if y.reduced][0]))
    if len(rel) == 2:
        (m1, k1, _, pv1, d1), (m2, k2, _, pv2, d2) = rel
        if k1 != k2:
            # decorations of two different kinds: their pairing values against each other
            for x in pv1:
                for y in pv2:
                    qs.add((x, y))
        elif k1 == 'resources' and d1[1] == d2[1] and d1[2] != d2[2]:
            # two classes of one provider: both in one `resources` value
            for a in (1, 2, 4):
                for b in (1, 2, 4):
                    qs.add((V('resources', 'c:%d,e:%d' % (a, b), (1, 4),
                              [[d1[2], a], [d2[2], b]], (), False, True),))
    return qs.items


# =========================================================================================
# 4. Judging one response
# =========================================================================================

def judge(dump, f, resp, reasons=None):
    """-> (category, violation kind or None, detail, ambiguous)"""
    want_400, want, empty_clause = rp_filter_oracle(dump, f, reasons)
    n_all = len(dump.providers)
    got = None
    if resp.status == 200:
        try:
            got = [x['uuid'] for x in resp.json['resource_providers']]
        except Exception:
            return 'bad', 'body', 'unparsable 200 body %r' % resp.raw[:200], False
    if got is not None:
        cat = 'empty' if not got else 'full' if len(set(got)) == n_all else 'partial'
    else:
        cat = '400' if resp.status == 400 else 'other'
    if want_400:
        if resp.status == 400:
            return cat, None, '', empty_clause
        if empty_clause and resp.status == 200 and got == []:
            return cat, None, '', True
        return (cat, 'status:%d-not-400' % resp.status,
                'an unknown trait / resource class must be answered 400, got %d %s' % (
                    resp.status, (got if got is not None else resp.raw[:200])), False)
    if resp.status != 200:
        return (cat, 'status:%d-not-200' % resp.status,
                'expected 200 with %s, got %d %s' % (sorted(short(x) for x in want), resp.status,
                                                     resp.raw[:300]), False)
    gs = set(got)
    if len(got) != len(gs):
        return cat, 'duplicate', 'duplicates in the response: %s' % sorted(got), False
    if gs != want:
        extra, missing = sorted(gs - want), sorted(want - gs)
        kind = 'extra' if extra and not missing else 'missing' if missing and not extra else \
            'extra+missing'
        return cat, kind, 'returned %s, the filters select %s (extra %s, missing %s)' % (
            sorted(short(x) for x in gs), sorted(short(x) for x in want),
            [short(x) for x in extra], [short(x) for x in missing]), False
    return cat, None, '', False


def short(u):
    return 'rp%d' % int(u[-12:]) if u.startswith('00000000-0000-4000-8000-') else u


# =========================================================================================
# 5. Worker
# =========================================================================================

class Worker(EnumWorker):
    def setup(self):
        self.bases = dict(scope.bases())

    def case(self, c):
        bname, deltas, thorough, (part, nparts) = c
        desc = scope.apply_deltas(bname, self.bases[bname], deltas)
        setup = scope.compile_state(desc)
        self.restore(self.build(setup))
        dump = self.dump()
        qs = queries(desc, thorough)[part::nparts]
        cats = {}
        viols = []
        reasons = collections.Counter()
        nontrivial = set()
        ambiguous = 0
        sample = None
        first = None
        for labels, mv, f, q in qs:
            req = R('GET', '/resource_providers', mv=mv, query=q)
            resp = http.call(self.h.app, req)
            if first is None:
                first = (req, resp.status, resp.raw)
            cat, kind, detail, amb = judge(dump, f, resp, reasons)
            ambiguous += amb
            key = (labels, mv)
            row = cats.get(key)
            if row is None:
                row = cats[key] = [0, 0, 0, 0, 0]
            row[('empty', 'full', 'partial', '400', 'other').index(cat)] += 1
            if cat == 'partial':
                got = tuple(sorted(x['uuid'] for x in resp.json['resource_providers']))
                nontrivial.add((labels, mv, got))
                if sample is None and len(labels) >= 2:
                    sample = {'query': q, 'mv': mv, 'returned': [short(x) for x in got]}
            if kind:
                viols.append((labels, mv, kind, q, f, detail))
        # the machinery owns the nondeterminism: the first query again, byte for byte
        if first is not None:
            again = http.call(self.h.app, first[0])
            if (again.status, again.raw) != (first[1], first[2]):
                raise RuntimeError('nondeterministic answer to %r' % (first[0],))
        return {'n': len(qs), 'cats': cats, 'viols': viols[:40], 'nviol': len(viols),
                'reasons': dict(reasons), 'nontrivial': len(nontrivial), 'ambiguous': ambiguous,
                'sample': sample, 'providers': len(dump.providers)}


def make_worker(base_image, *args):
    return Worker(base_image, *args)


# =========================================================================================
# 6. Enumeration, aggregation, evidence
# =========================================================================================

def state_cases(k, same_provider_pairs, thorough):
    """(name, case) per state; a case carries only (base, deltas, tier flag): the worker rebuilds
    the description deterministically."""
    for name, desc, _ in scope.states(k, same_provider_pairs=same_provider_pairs):
        nparts = 1 if desc['deltas'] else BASE_PARTS      # base states carry the full grammar
        for part in range(nparts):
            yield name, (desc['base'], tuple(tuple(d) for d in desc['deltas']), thorough,
                         (part, nparts))


def _drive(ctx, named_cases, on_result, deadline):
    """Feed one state per task; at most 3 tasks per worker are in flight, so the deadline is
    looked at while the work proceeds (imap would otherwise swallow the whole list at once)."""
    import threading
    from vp.boot import make_base_image
    from vp.workers import Pool
    base_img = make_base_image()
    pool = Pool(ctx.workers, 'vp.props.c13', 'make_worker', (base_img,))
    pending = collections.deque()
    stopped = [False]
    slots = threading.Semaphore(3 * ctx.workers)

    def chunks():
        for name, c in named_cases:
            slots.acquire()
            if ctx.elapsed() > deadline:
                stopped[0] = True
                break
            pending.append((name, c))
            yield [c]
    try:
        for res in pool.map(chunks()):
            name, c = pending.popleft()
            on_result(name, c, res[0])
            slots.release()
    finally:
        for _ in range(8 * ctx.workers):
            slots.release()
        pool.close()
    return not stopped[0]


def sig_of(kind, mv, labels):
    if mv == '*':
        return '%s:%s' % (kind, '&'.join(labels))
    return '%s@%s:%s' % (kind, mv, '&'.join(labels))


def run(ctx):
    ctx.level = 'exploration'
    thorough = not ctx.quick
    budget = ctx.budget or (360 if ctx.quick else 2400)
    k = 2 if thorough else 1

    named = list(state_cases(k, True, thorough))
    # the seed only rotates the execution order inside each size class (results are aggregated
    # order-independently); smaller states first so that a cap cuts the largest ones
    by_size = collections.defaultdict(list)
    for nc in named:
        by_size[len(nc[1][1])].append(nc)
    ordered = []
    for n in sorted(by_size):
        lst = by_size[n]
        rot = (ctx.seed * 7919) % len(lst)
        ordered += lst[rot:] + lst[:rot]

    evaluations = [0]
    distinct_nontrivial = [0]
    ambiguous = [0]
    states_done = collections.Counter()
    tasks_done = [0]
    cats = {}
    reasons = collections.Counter()
    samples = []
    fails = {}          # (kind, mv, labels) -> {'count', 'first': (state, case, q, f, detail)}
    nviol = [0]
    per_base = collections.Counter()

    def on_result(name, c, r):
        evaluations[0] += r['n']
        distinct_nontrivial[0] += r['nontrivial']
        ambiguous[0] += r['ambiguous']
        tasks_done[0] += 1
        if c[3][0] == 0:
            states_done[len(c[1])] += 1
        per_base[c[0]] += r['n']
        for key, row in r['cats'].items():
            tot = cats.get(key)
            if tot is None:
                cats[key] = list(row)
            else:
                for i in range(5):
                    tot[i] += row[i]
        reasons.update(r['reasons'])
        if r['sample'] and len(samples) < 10 and sum(states_done.values()) % 97 == 1:
            samples.append(dict(r['sample'], state=name))
        nviol[0] += r['nviol']
        for labels, mv, kind, q, f, detail in r['viols']:
            e = fails.get((kind, mv, labels))
            if e is None:
                fails[(kind, mv, labels)] = {'count': 1, 'first': (name, c, q, f, detail)}
            else:
                e['count'] += 1

    complete = _drive(ctx, ordered, on_result, budget)
    if not complete:
        ctx.cap('stopped by the time budget after %d of %d tasks (one task = one decorated state '
                'or 1/%d of a base state; order: 0, 1, 2 decorations)'
                % (tasks_done[0], len(ordered), BASE_PARTS))

    # ---- violations: one signature per minimal failing filter combination -------------------
    # A set mismatch is keyed by the exact filter values; a wrong status by the unknown item and
    # the *kinds* of the other active filters (which of them short-circuits depends on the data,
    # not on the value).  A failing combination that contains a smaller failing combination of
    # the same kind of failure is filed under the smaller one (same microversion preferred).
    def items_of(kind, labels):
        if kind.startswith('status'):
            return tuple(sorted(l if l.endswith('unknown') else l.split('=')[0] for l in labels))
        return labels
    grouped = {}
    for (kind, mv, labels), e in fails.items():
        key = (kind, mv if not kind.startswith('status') else '*', items_of(kind, labels))
        g = grouped.get(key)
        if g is None:
            grouped[key] = {'count': e['count'], 'first': e['first'], 'mv': mv}
        else:
            g['count'] += e['count']
            if ver(mv) > ver(g['mv']):
                g['first'], g['mv'] = e['first'], mv
    keys = sorted(grouped, key=lambda k_: (len(k_[2]), k_[2], k_[1], k_[0]))
    bases_ = dict(scope.bases())
    for kind, mv, items in keys:
        owner = None
        for k2, mv2, i2 in keys:
            if len(i2) >= len(items):
                break
            if k2 == kind and set(i2) < set(items) and (mv2 == mv or owner is None):
                owner = (k2, mv2, i2)
                if mv2 == mv:
                    break
        e = grouped[(kind, mv, items)]
        name, c, q, f, detail = e['first']
        sig = sig_of(*(owner or (kind, mv, items)))
        desc = scope.apply_deltas(c[0], bases_[c[0]], c[1])
        msg = '[%s] state %s: GET /resource_providers?%s @%s: %s' % (sig, name, q, e['mv'],
                                                                     detail)
        ctx.violation(sig, msg, {
            'state': name, 'setup': scope.compile_state(desc),
            'request': R('GET', '/resource_providers', mv=e['mv'], query=q), 'filters': f,
            'kind': kind})
        for v in ctx.violations:
            if v['signature'] == sig:
                v['count'] += e['count'] - 1

    # ---- evidence -------------------------------------------------------------------------------
    never = []
    never_by_construction = 0
    outcome = collections.Counter()
    for (labels, mv), row in sorted(cats.items()):
        if row[2] == 0:
            if any(l in BY_CONSTRUCTION for l in labels):
                never_by_construction += 1      # contains a value meant to be trivial
            else:
                never.append('%s@%s' % ('&'.join(labels), mv))
        for i, n in enumerate(('empty', 'full', 'partial', '400', 'other')):
            outcome[n] += row[i]
    by_arity = collections.Counter(len(labels) for labels, _ in cats)
    by_version = collections.Counter()
    for (labels, mv), row in cats.items():
        by_version[mv] += sum(row)
    show = {}
    for (labels, mv), row in sorted(cats.items()):
        if len(labels) <= 2 and mv == LATEST:
            show['&'.join(labels)] = row[:4]
    ctx.coverage.update({
        'evaluations': evaluations[0],
        'distinct_nontrivial': distinct_nontrivial[0],
        'rule': 'states = six base topologies x every set of <= %d decoration deltas of '
                'vp/scope.py%s; queries per state = see vp/props/c13.py `queries` (base states: '
                'full grammar under every focus; decorated states: every query containing a '
                'filter value the decoration can influence, alone, paired%s and in the '
                'all-six-active combinations, plus the earlier microversions). A case is one '
                '(state, query); it is non-trivial when the real service returned a non-empty '
                'proper subset of the providers; distinct = distinct (state, combination class, '
                'microversion, returned uuid set) triples' % (
                    k, ' (pairs of deltas: both on one provider, or both trait / aggregate '
                       'toggles)' if k == 2 else '',
                    ' with every / in triples with a reduced menu of other filters' if thorough
                    else ' with a reduced menu of every other filter'),
        'samples': samples,
        'exhaustive': bool(complete),
        'states': sum(states_done.values()),
        'states_by_decorations': {str(n): v for n, v in sorted(states_done.items())},
        'evaluations_by_base': dict(per_base),
        'evaluations_by_version': dict(by_version),
        'outcomes': dict(outcome),
        'combination_classes': len(cats),
        'combination_classes_by_active_filters': {str(n): v for n, v in sorted(by_arity.items())},
        'never_discriminating': never[:300],
        'never_discriminating_count': len(never),
        'never_discriminating_by_construction_count': never_by_construction,
        'outcomes_per_class_1_39_up_to_pairs [empty, full, partial, 400]': show,
        'resource_constraint_roles': dict(reasons),
        'ambiguous_accepted': ambiguous[0],
        'violating_cases': nviol[0],
    })
    ctx.assumptions += [
        'scope: <= 7 providers in <= 3 trees of depth <= 3, classes VCPU DISK_GB SRIOV_NET_VF '
        'CUSTOM_X, traits HW_CPU_X86_AVX CUSTOM_T_B CUSTOM_T_C MISC_SHARES_VIA_AGGREGATE, '
        'aggregates A1..A3; usage is written under a scratch inventory so that it is arbitrary '
        'with respect to the final inventory',
        'relevance pruning: on a decorated state only the queries containing a filter kind the '
        'decoration can influence (inventory / usage -> resources of that class, trait toggle -> '
        'required values naming the trait, aggregate toggle -> member_of values naming the '
        'aggregate) are run; the others are run on the base state, where the oracle gives the '
        'same answer',
        'an unknown trait / class together with an explicit empty-list clause (unknown in_tree / '
        'uuid, member_of naming only unknown aggregates) is ambiguous in the statement: 400 and '
        'an empty 200 are both accepted (counted in ambiguous_accepted)',
        'SQLite double arithmetic stands in for the DBMS (MySQL stores allocation_ratio as a '
        'single-precision FLOAT: boundaries involving ratios that are not exact in binary32 '
        'are outside this check)',
        'filters are not checked below the microversion that introduced them (C14)',
    ]
    if not ctx.new_violations():
        conc_part(ctx)


def conc_part(ctx):
    from vp import readcons
    from vp.names import P as PP
    q = {
        'in_tree=P1': 'in_tree=' + PP(1),
        'in_tree=P3': 'in_tree=' + PP(3),
        'in_tree=P2&resources=DISK_GB:1': 'in_tree=%s&resources=DISK_GB:1' % PP(2),
        'resources=VCPU:1,DISK_GB:1': 'resources=VCPU:1,DISK_GB:1',
        'resources=VCPU:2': 'resources=VCPU:2',
        'required=T1': 'required=' + readcons.T1,
        'required=T1&resources=VCPU:1': 'required=%s&resources=VCPU:1' % readcons.T1,
        'member_of=A1': 'member_of=' + AG_A,
        'member_of=A1&resources=DISK_GB:1': 'member_of=%s&resources=DISK_GB:1' % AG_A,
        'name=rp4': 'name=' + pname(4),
    }
    pairs = [('in_tree=P1', 'PUT P1 under P2'), ('in_tree=P3', 'PUT P3 to top'),
             ('in_tree=P2&resources=DISK_GB:1', 'PUT P3 to top'),
             ('in_tree=P2&resources=DISK_GB:1', 'PUT P1 under P2'),
             ('resources=VCPU:1,DISK_GB:1', 'reshaper: VCPU leaves P1, DISK_GB arrives on P2'),
             ('resources=VCPU:1,DISK_GB:1', 'PUT inventories P1 (DISK_GB only)'),
             ('resources=VCPU:2', 'PUT allocations K1 (3 VCPU of P1)'),
             ('required=T1', 'PUT traits P1 (T1 -> T2)'),
             ('required=T1&resources=VCPU:1', 'PUT traits P2 (+T1)'),
             ('member_of=A1', 'PUT aggregates P1 (A1 -> A2)'),
             ('member_of=A1&resources=DISK_GB:1', 'PUT aggregates P4 (+A1)'),
             ('name=rp4', 'DELETE P4'), ('in_tree=P1', 'POST P5 under P1')]
    triples = [('resources=VCPU:1,DISK_GB:1', 'PUT inventories P1 (DISK_GB only)',
                'PUT inventories P2 (+DISK_GB)'),
               ('required=T1&resources=VCPU:1', 'PUT traits P1 (T1 -> T2)', 'PUT traits P2 (+T1)'),
               ('member_of=A1&resources=DISK_GB:1', 'PUT aggregates P1 (A1 -> A2)',
                'PUT aggregates P4 (+A1)')]
    flat_triples = [('resources=VCPU:1,DISK_GB:1', 'POST P5 under P1',
                     'PUT inventories P5 (VCPU + DISK_GB)')]
    sc = readcons.scenarios('/resource_providers', q, pairs, triples, (), flat_triples)
    readcons.run_part(ctx, 'C13', sc)


def replay(ctx, data):
    if data.get('engine') == 'conc':
        from vp import explore_conc
        return explore_conc.replay(ctx, data)
    from vp.boot import Harness
    from vp.check import HarnessError
    from vp.snapshot import Dump
    h = Harness()
    for r in data['setup']:
        resp = http.call(h.app, r)
        if resp.status >= 400:
            raise HarnessError('replay setup failed: %s %s -> %s' % (
                r['method'], r['path'], resp.status))
    dump = Dump(h.dbfile)
    req = data['request']
    resp = http.call(h.app, req)
    cat, kind, detail, _ = judge(dump, data['filters'], resp)
    try:
        body = 'resource_providers: %s' % [short(x['uuid'])
                                          for x in resp.json['resource_providers']]
    except Exception:
        body = resp.raw[:400].decode('utf-8', 'replace')
    line = 'state %s: GET /resource_providers?%s @%s -> %s %s' % (
        data.get('state'), req.get('query', ''), req['mv'], resp.status, body)
    if kind:
        return False, '%s\n  %s: %s' % (line, kind, detail)
    return True, line
