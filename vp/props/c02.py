"""C02 -- every allocation candidate can be claimed exactly as returned (E-enum).

Same scope states x query grammar as C03; here every returned allocation request is judged on its
own: shape (providers exist, group resources in full on the mapped providers, per-class totals),
claimability (PUT /allocations/{fresh consumer} with exactly the returned allocations on a fresh
restore of the same state must answer 204) and provider summaries (capacity, used, traits,
parent/root equal the rows).
"""
import collections
import itertools

from vp import acq, scope
from vp.enum import EnumWorker, run_cases
from vp.http import R
from vp.names import K
from vp.oracles_ac import World, to_qs
from vp.snapshot import capacity

VERSIONS = ('1.39', '1.36', '1.34', '1.29', '1.27', '1.26', '1.25', '1.17', '1.12', '1.10')
FRESH = K(77)


def ver(mv):
    return tuple(int(x) for x in mv.split('.'))


def allocs_of(ar):
    al = ar['allocations']
    out = {}
    if isinstance(al, dict):
        for rp, x in al.items():
            for rc, amt in x['resources'].items():
                out[(rp, rc)] = out.get((rp, rc), 0) + amt
    else:
        for x in al:
            rp = x['resource_provider']['uuid']
            for rc, amt in x['resources'].items():
                out[(rp, rc)] = out.get((rp, rc), 0) + amt
    return out


def explains(q, allocs, mappings):
    """Is there an assignment (each suffixed group in full on its one mapped provider, each class
    of the suffixless group in full on one provider of the '' mapping) whose sums reproduce the
    returned amounts exactly?"""
    groups = q['groups']
    choices = []
    for s, g in groups.items():
        res = g.get('resources') or {}
        mp = mappings.get(s)
        if mp is None:
            return False, 'group %r has no mapping' % s
        if s != '':
            if len(mp) != 1:
                return False, 'suffixed group %r mapped to %d providers' % (s, len(mp))
            choices.append([tuple((mp[0], rc, amt) for rc, amt in res.items())])
        else:
            per_class = []
            for rc, amt in res.items():
                per_class.append([(p, rc, amt) for p in mp])
            choices.append([tuple(c) for c in itertools.product(*per_class)] or [()])
    for combo in itertools.product(*choices):
        total = {}
        used_u = set()
        for c in combo:
            for p, rc, amt in c:
                total[(p, rc)] = total.get((p, rc), 0) + amt
        if total == allocs:
            # every provider of the '' mapping must actually be used by the suffixless group
            return True, None
    return False, 'no assignment of group resources to mapped providers sums to the returned ' \
                  'amounts'


class Worker(EnumWorker):
    def setup(self):
        self.cur = None

    def case(self, c):
        name, setup, qs = c['state'], c['setup'], c['queries']
        if self.cur != name:
            self.img = self.build(setup)
            self.cur = name
            self.d = self.dump()
            self.w = World(self.d)
        out = []
        for label, q in qs:
            self.restore(self.img)
            mv = q['mv']
            v = ver(mv)
            resp, _ = self.call(R('GET', '/allocation_candidates', query=to_qs(q), mv=mv))
            viol = []
            if resp.status != 200:
                out.append({'label': label, 'n': 0, 'claims': 0, 'viol': [
                    ('status', 'answered %s' % resp.status)]})
                continue
            j = resp.json
            ars = j.get('allocation_requests', [])
            summ = j.get('provider_summaries', {})
            want_total = {}
            for g in q['groups'].values():
                for rc, amt in (g.get('resources') or {}).items():
                    want_total[rc] = want_total.get(rc, 0) + amt
            claims = 0
            for ar in ars:
                al = allocs_of(ar)
                txt = ' '.join('%s:%s=%s' % (p[-2:], rc, a) for (p, rc), a in sorted(al.items()))
                # (a) providers exist, positive integer amounts
                for (p, rc), amt in al.items():
                    if p not in self.d.providers:
                        viol.append(('unknown-provider', '%s names unknown provider' % txt))
                # per class totals
                got_total = {}
                for (p, rc), amt in al.items():
                    got_total[rc] = got_total.get(rc, 0) + amt
                if got_total != want_total:
                    viol.append(('totals', 'candidate [%s] places %s, request asks %s' % (
                        txt, got_total, want_total)))
                # (b) mappings explain the amounts
                if v >= (1, 34):
                    mp = ar.get('mappings') or {}
                    ok, why = explains(q, al, mp)
                    if not ok:
                        viol.append(('mapping', 'candidate [%s] mappings %s: %s' % (txt, mp, why)))
                    named = set(p for ps in mp.values() for p in ps)
                else:
                    named = set()
                # (d) summaries
                for p in {p for (p, rc) in al} | named:
                    if p not in self.d.providers:
                        continue
                    s = summ.get(p)
                    supplies = any(pp == p for (pp, rc) in al)
                    if s is None:
                        if supplies:
                            viol.append(('summary-missing', 'provider %s of candidate [%s] has no '
                                         'provider_summaries entry' % (p[-2:], txt)))
                        continue
                    have = {rc: i for (pp, rc), i in self.d.inventories.items() if pp == p}
                    res = s.get('resources', {})
                    if v >= (1, 27):
                        if set(res) != set(have):
                            viol.append(('summary-classes', 'summary of %s lists %s, inventory has '
                                         '%s' % (p[-2:], sorted(res), sorted(have))))
                    elif set(res) != set(have) & set(want_total):
                        # below 1.27 a summary shows the requested classes (of all groups) only
                        viol.append(('summary-classes', 'summary of %s lists %s; its inventory '
                                     'has %s and the request asks for %s' % (
                                         p[-2:], sorted(res), sorted(have), sorted(want_total))))
                    for rc, x in res.items():
                        if rc not in have:
                            viol.append(('summary-classes', 'summary of %s lists %s without '
                                         'inventory' % (p[-2:], rc)))
                            continue
                        cap = int(capacity(have[rc]))
                        used = self.w.used.get((p, rc), 0)
                        if x.get('capacity') != cap or x.get('used') != used:
                            viol.append(('summary-numbers', 'summary of %s/%s says capacity %s '
                                         'used %s, rows say %s / %s' % (
                                             p[-2:], rc, x.get('capacity'), x.get('used'), cap,
                                             used)))
                    if v >= (1, 17):
                        if set(s.get('traits', [])) != self.w.traits.get(p, set()):
                            viol.append(('summary-traits', 'summary of %s lists traits %s, rows '
                                         'say %s' % (p[-2:], sorted(s.get('traits', [])),
                                                     sorted(self.w.traits.get(p, set())))))
                    if v >= (1, 29):
                        if s.get('parent_provider_uuid') != self.w.parent[p] or \
                                s.get('root_provider_uuid') != self.w.top[p]:
                            viol.append(('summary-tree', 'summary of %s says parent %s root %s, '
                                         'rows say %s / %s' % (
                                             p[-2:], s.get('parent_provider_uuid'),
                                             s.get('root_provider_uuid'), self.w.parent[p],
                                             self.w.top[p])))
                # (c) claim it, unchanged, on a fresh restore of the same state
                body = {'allocations': ar['allocations']}
                if v >= (1, 8):
                    body['project_id'] = 'claim-project'
                    body['user_id'] = 'claim-user'
                if v >= (1, 28):
                    body['consumer_generation'] = None
                if v >= (1, 34) and 'mappings' in ar:
                    body['mappings'] = ar['mappings']
                if v >= (1, 38):
                    body['consumer_type'] = 'INSTANCE'
                self.restore(self.img)
                r2, _ = self.call(R('PUT', '/allocations/' + FRESH, body, mv=mv))
                claims += 1
                if r2.status != 204:
                    viol.append(('claim-refused', 'candidate [%s] sent unchanged to PUT '
                                 '/allocations/{new consumer} was answered %s %s' % (
                                     txt, r2.status, r2.raw[:200])))
            out.append({'label': label, 'n': len(ars), 'claims': claims,
                        'viol': viol[:6], 'qs': to_qs(q) if viol else None})
        return {'state': name, 'results': out}


def make_worker(base_image, *args):
    return Worker(base_image, *args)


def plan(ctx):
    tiers = []
    if ctx.quick:
        tiers.append((0, False, 1, ('1.39',), VERSIONS[1:]))
        tiers.append((1, False, 0, ('1.39', '1.10'), ()))
    else:
        tiers.append((0, False, 2, ('1.39',), VERSIONS[1:]))
        tiers.append((1, False, 1, ('1.39',), ('1.28', '1.10')))
    cases = []
    seen = set()
    for kstate, spp, kq, versions, extra in tiers:
        for name, desc, setup in scope.states(kstate, same_provider_pairs=spp):
            if name in seen:
                continue
            seen.add(name)
            qs = acq.queries(desc, kq, versions, extra)
            for i in range(0, len(qs), 200):
                cases.append({'state': name, 'setup': setup, 'queries': qs[i:i + 200],
                              'base': desc['base']})
    return cases


def run(ctx):
    from vp.props.c03 import features
    ctx.budget = ctx.budget or (300 if ctx.quick else 4200)
    cases = plan(ctx)
    ctx.level = 'exploration'
    evaluations = 0
    claims = 0
    nontrivial = set()
    samples = []
    overlapping = 0
    for c, res in zip(cases, run_cases(ctx, 'vp.props.c02', cases, chunk=1)):
        for r in res['results']:
            evaluations += 1
            claims += r['claims']
            if r['n']:
                nontrivial.add((c['state'], r['label']))
                if any(b in r['label'] for b in ('m1same', 's2same', 's3')):
                    overlapping += 1
            if len(samples) < 4 and r['n'] >= 2:
                samples.append({'state': c['state'], 'query': r['label'], 'candidates': r['n'],
                                'claimed': r['claims']})
            base, feats = features(r['label'])
            for kind, msg in r['viol']:
                sig = 'c02-%s|%s|%s|%s' % (kind, c['base'], base, ','.join(feats) or 'plain')
                q = dict([x for x in c['queries'] if x[0] == r['label']][0][1])
                ctx.violation(sig, '%s: state %s, query %s (%s): %s' % (
                    kind, c['state'], r['label'], r.get('qs'), msg),
                    {'engine': 'enum', 'state': c['state'], 'setup': c['setup'],
                     'label': r['label'], 'query': q})
        if ctx.out_of_time():
            ctx.cap('budget exhausted after %d evaluations' % evaluations)
            break
    ctx.coverage.update({
        'evaluations': evaluations,
        'distinct_nontrivial': len(nontrivial),
        'candidates_claimed': claims,
        'queries_with_overlapping_classes_and_results': overlapping,
        'rule': 'scope states x query grammar of C03 (%s) at microversions %s; every returned '
                'allocation request is checked for shape (mapped providers explain the amounts, '
                'per-class totals), provider summaries against the rows, and is then sent '
                'unchanged as PUT /allocations/{new consumer} on a fresh restore of the same state '
                '(must be 204); non-trivial = (state, query) with at least one candidate' % (
                    'quick: (0 state deltas, <=1 query deviation), (1, 0)' if ctx.quick else
                    'thorough: (0, <=2), (1, <=1)', list(VERSIONS)),
        'samples': samples or [{'note': 'none'}],
        'exhaustive': not ctx.caps,
    })
    ctx.assumptions += ['capacity in provider summaries is int((total - reserved) * '
                        'allocation_ratio) as documented',
                        'scope as in C03']


def replay(ctx, data):
    from vp.boot import Harness
    h = Harness()
    w = Worker.__new__(Worker)
    from vp.probe import Probe
    w.h = h
    w.base = h.base_image
    w.probe = Probe(h)
    w.cur = None
    res = w.case({'state': data['state'], 'setup': data['setup'],
                  'queries': [(data['label'], data['query'])]})
    kind = data['signature'].split('|')[0][4:]
    for r in res['results']:
        for k, msg in r['viol']:
            if k == kind:
                return False, 'reproduced: %s' % msg
    return True, 'no %s violation' % kind
