"""C11 -- reads report exactly the state produced by the successful writes.

E-seq (explicit-state BFS over request histories of the real service) with the reference model
`vp.refmodel.RefPlacement` stepped in lock-step on EVERY explored transition:

  on_transition(pre, req, resp, post):
      model = RefPlacement.from_dump(pre)            # abstraction function
      out   = model.plan(req)                        # documented statuses / effect / body
      status in out.statuses                         -> else 'c11-status:<tag>:<status>'
      resynchronise on the observed status class, apply the documented effect
      model.as_core() == rows of post                -> else 'c11-state:<tag>:<section>'
      generation relations (C10's, no numbers)       -> else 'c11-gen:<tag>'
      normalised 2xx body == model's view            -> else 'c11-body:<tag>'
  on_state(dump):
      every read view of every entity == model.from_dump(dump)'s view ('c11-read:<probe>'),
      provider usages == sum of the allocations the API lists, per-consumer and per-provider
      allocation views agree ('c11-xview:*'), and the reads changed nothing.

The check that the implementation's transition commutes with the model's through from_dump is
what binds the model to the code: every transition IS an implementation execution.
"""
import json
import os

from vp import explore_seq, reqs
from vp.http import R
from vp.names import A, K, P, UNKNOWN_UUID
from vp.props.c01 import fill
from vp.refmodel import NotModelled, RefPlacement, UNPINNED, norm

STD_TRAIT = 'HW_CPU_X86_AVX'
T1 = 'CUSTOM_T1'
CX, CY = 'CUSTOM_X', 'CUSTOM_Y'
FOUR = {'total': 4}                                              # all defaults
VA = {'total': 4, 'reserved': 1, 'min_unit': 1, 'max_unit': 2, 'step_size': 1,
      'allocation_ratio': 1.5}                                   # capacity 4.5, max_unit binds
VS = {'total': 8, 'step_size': 2, 'min_unit': 2}                 # step/min bind, rest default
ONE = {'total': 1}                                               # shrink -> over-commit
BAD_UUID = 'not-a-uuid'

LEFT_OUT = [
    'POST /resource_providers/{uuid}/inventories: the route is not in api-ref/source at all',
    'POST /resource_providers without uuid: the server-chosen uuid cannot be predicted',
    'GET /allocation_candidates: status and read-only-ness only; the body is the subject of '
    'C02/C03',
    'GET /resource_providers?member_of|required|resources: subject of C13',
    'inventory field bounds (total 0, negative values, > 2^31-1), allocation amounts < 1: the '
    'documentation gives types only (C15 covers robustness)',
    'GET /usages?consumer_type=<a type no consumer has>: not documented (and depends on the '
    'consumer_types table, which rejected requests may extend)',
    'PUT /resource_classes/{name} (>= 1.7) with a request body; duplicate entries in trait / '
    'aggregate lists; repeated query parameters',
    'methods a path never supports (405) and versions outside 1.0-1.39 (406): subject of C14',
]


def gen_of(d, rp, stale=False):
    g = d.providers[rp]['gen'] if rp in d.providers else 0
    return g + 1 if stale else g


def cgen_of(d, c, stale=False):
    if c in d.consumers:
        return d.consumers[c]['gen'] + (1 if stale else 0)
    return 7 if stale else None


def allocs_of(d, c):
    out = {}
    for (cu, rp, rc), amt in d.allocations.items():
        if cu == c:
            out.setdefault(rp, {})[rc] = amt
    return out


def strip(inv):
    return {k: inv[k] for k in ('total', 'reserved', 'min_unit', 'max_unit', 'step_size',
                                'allocation_ratio')}


class Spec(object):
    """level: 'full' (every route, valid + invalid, all versions) or 'deep' (state-changing
    requests at the latest version only, used to reach states further away)."""

    def __init__(self, level='full', nprov=2, ncons=2):
        self.level = level
        self.provs = [P(i) for i in range(1, nprov + 1)]
        self.cons = [K(i) for i in range(1, ncons + 1)]

    # -- start states --------------------------------------------------------------------
    def starts(self):
        pop = [reqs.mk_rp(1), reqs.mk_rp(2, parent=P(1)), reqs.post_class(CX),
               reqs.put_trait(T1),
               reqs.put_invs(P(1), 0, {'VCPU': FOUR, 'DISK_GB': VA, CX: FOUR}),
               reqs.put_invs(P(2), 0, {'VCPU': FOUR}),
               reqs.put_traits(P(1), 1, [T1, STD_TRAIT]),
               reqs.put_aggs(P(1), 2, [A(1)])]
        used = pop + [
            reqs.put_alloc(K(1), {P(1): {'VCPU': 1, 'DISK_GB': 2}}, mv='1.38', project='p1',
                           user='u1', ctype='INSTANCE'),
            reqs.put_alloc(K(2), {P(1): {'VCPU': 2}, P(2): {'VCPU': 1}}, mv='1.12',
                           project='p2', user='u2')]
        return [('empty', []), ('populated', pop), ('populated+allocations', used)]

    def canon(self, d):
        return d.key(gens=False)

    # -- alphabet ------------------------------------------------------------------------
    def alphabet(self, d):
        full = self.level == 'full'
        out = []
        out += self._provider_ops(d, full)
        out += self._class_trait_ops(d, full)
        for i, rp in enumerate(self.provs):
            if rp in d.providers:
                out += self._inventory_ops(d, rp, full, primary=(i == 0))
                out += self._rp_trait_agg_ops(d, rp, full, primary=(i == 0))
        for i, k in enumerate(self.cons):
            out += self._alloc_ops(d, k, full, primary=(i == 0))
        out += self._bulk_ops(d, full)
        if full:
            out += self._misc_ops(d)
        return out

    def _provider_ops(self, d, full):
        out = []
        p1, p2 = self.provs[0], self.provs[1]
        post = lambda body, mv, tag: R('POST', '/resource_providers', body, mv=mv, tag=tag)
        put = lambda u, body, mv, tag: R('PUT', '/resource_providers/' + u, body, mv=mv, tag=tag)
        if p1 not in d.providers:
            out.append(post({'name': 'rp1', 'uuid': p1}, '1.39', 'POST rp root'))
            if full:
                out.append(post({'name': 'rp1', 'uuid': p1}, '1.13', 'POST rp root@1.13'))
                out.append(post({'name': 'rp1', 'uuid': p1}, '1.19', 'POST rp root@1.19'))
                out.append(post({'name': 'rp1', 'uuid': p1}, None, 'POST rp root@none'))
                out.append(post({'name': 'rp1', 'uuid': p1, 'parent_provider_uuid': None},
                                '1.14', 'POST rp parent null@1.14'))
                out.append(post({'name': 'rp1', 'uuid': p1, 'parent_provider_uuid': p1},
                                '1.39', 'POST rp parent self'))
        if p2 not in d.providers:
            out.append(post({'name': 'rp2', 'uuid': p2}, '1.20', 'POST rp2 root@1.20'))
            # other accepted spellings of the same uuid name the same provider
            out.append(post({'name': 'rp2', 'uuid': p2.replace('-', '')}, '1.39',
                            'POST rp2 root, uuid without dashes'))
            out.append(post({'name': 'rp2', 'uuid': '{%s}' % p2}, '1.20',
                            'POST rp2 root, uuid in braces'))
            par = p1 if p1 in d.providers else UNKNOWN_UUID
            out.append(post({'name': 'rp2', 'uuid': p2, 'parent_provider_uuid': par}, '1.39',
                            'POST rp2 child' if par == p1 else 'POST rp2 unknown parent'))
            if full:
                out.append(post({'name': 'rp2', 'uuid': p2, 'parent_provider_uuid': par},
                                '1.13', 'POST rp2 child@1.13 (field not yet accepted)'))
                out.append(post({'name': 'rp2', 'uuid': p2, 'parent_provider_uuid': par},
                                '1.14', 'POST rp2 child@1.14'))
                out.append(post({'name': 'rp2', 'uuid': p2,
                                 'parent_provider_uuid': UNKNOWN_UUID}, '1.14',
                                'POST rp2 unknown parent@1.14'))
                out.append(post({'name': 'rp2', 'uuid': p2, 'parent_provider_uuid': BAD_UUID},
                                '1.39', 'POST rp2 malformed parent'))
                if p1 in d.providers:
                    out.append(post({'name': d.providers[p1]['name'], 'uuid': p2}, '1.39',
                                    'POST rp2 duplicate name'))
        if full:
            if p1 in d.providers:
                out.append(post({'name': 'rp-other', 'uuid': p1}, '1.39',
                                'POST rp duplicate uuid'))
            out.append(post({'uuid': UNKNOWN_UUID}, '1.39', 'POST rp without name'))
            out.append(post({'name': 'rp-bad', 'uuid': BAD_UUID}, '1.39',
                            'POST rp malformed uuid'))
            out.append(post({'name': 'rp-x', 'uuid': UNKNOWN_UUID, 'colour': 'red'}, '1.39',
                            'POST rp unknown field'))
            out.append(R('POST', '/resource_providers', raw='{"name": ', tag='POST rp bad JSON'))
            out.append(put(UNKNOWN_UUID, {'name': 'nobody'}, '1.39', 'PUT rp unknown'))
            out.append(R('DELETE', '/resource_providers/' + UNKNOWN_UUID,
                         tag='DELETE rp unknown'))
            out.append(R('DELETE', '/resource_providers/' + BAD_UUID,
                         tag='DELETE rp malformed uuid'))
        for u in self.provs:
            if u not in d.providers:
                continue
            out.append(R('DELETE', '/resource_providers/' + u, tag='DELETE rp'))
            if full:
                out.append(R('DELETE', '/resource_providers/' + u, mv='1.0',
                             tag='DELETE rp@1.0'))
        if p1 in d.providers:
            cur = d.providers[p1]['name']
            new = 'rp1-renamed' if cur == 'rp1' else 'rp1'
            out.append(put(p1, {'name': new}, '1.39', 'PUT rp rename'))
            if full:
                out.append(put(p1, {'name': new}, '1.0', 'PUT rp rename@1.0'))
                out.append(put(p1, {'name': cur}, '1.39', 'PUT rp same name'))
                out.append(put(p1, {}, '1.39', 'PUT rp without name'))
                out.append(put(p1, {'name': cur, 'parent_provider_uuid': p1}, '1.39',
                               'PUT rp parent self'))
                out.append(put(p1, {'name': cur, 'parent_provider_uuid': UNKNOWN_UUID}, '1.39',
                               'PUT rp unknown parent'))
                out.append(put(p1, {'name': cur, 'parent_provider_uuid': None}, '1.13',
                               'PUT rp parent field@1.13'))
                if p2 in d.providers:
                    out.append(put(p1, {'name': d.providers[p2]['name']}, '1.39',
                                   'PUT rp duplicate name'))
                    # loop when P2 is under P1, a legal first-time parenting otherwise
                    for mv in ('1.36', '1.37'):
                        out.append(put(p1, {'name': cur, 'parent_provider_uuid': p2}, mv,
                                       'PUT rp1 parent=rp2@' + mv))
        if p2 in d.providers and p1 in d.providers:
            cur = d.providers[p2]
            for mv in (('1.14', '1.36', '1.37') if full else ('1.37',)):
                out.append(put(p2, {'name': cur['name'], 'parent_provider_uuid': None}, mv,
                               'PUT rp2 parent=null@' + mv))
                out.append(put(p2, {'name': cur['name'], 'parent_provider_uuid': p1}, mv,
                               'PUT rp2 parent=rp1@' + mv))
            if full:
                out.append(put(p2, {'name': cur['name']}, '1.14', 'PUT rp2 parent omitted@1.14'))
        return out

    def _class_trait_ops(self, d, full):
        out = []
        out.append(reqs.post_class(CX, tag='POST class'))
        out.append(reqs.del_class(CX, tag='DELETE class custom'))
        out.append(reqs.put_trait(T1, tag='PUT trait'))
        out.append(reqs.del_trait(T1, tag='DELETE trait custom'))
        if not full:
            return out
        out.append(reqs.post_class(CX, mv='1.1', tag='POST class@1.1'))
        out.append(reqs.post_class(CX, mv='1.2', tag='POST class@1.2'))
        out.append(reqs.post_class('FANCY', tag='POST class not CUSTOM_'))
        out.append(reqs.post_class('CUSTOM_lower', tag='POST class lower case'))
        out.append(reqs.post_class('VCPU', tag='POST class standard name'))
        out.append(R('POST', '/resource_classes', {}, tag='POST class without name'))
        out.append(R('POST', '/resource_classes', {'name': CX, 'id': 7},
                     tag='POST class unknown field'))
        out.append(reqs.put_class(CX, mv='1.7', tag='PUT class@1.7'))
        out.append(reqs.put_class(CX, mv='1.39', tag='PUT class@1.39'))
        out.append(reqs.put_class('VCPU', mv='1.7', tag='PUT class standard@1.7'))
        out.append(reqs.put_class('FANCY', mv='1.7', tag='PUT class not CUSTOM_@1.7'))
        # 1.2 - 1.6: PUT renames
        out.append(reqs.put_class(CX, mv='1.6', body={'name': CY}, tag='PUT class rename@1.6'))
        out.append(reqs.put_class(CY, mv='1.6', body={'name': CX},
                                  tag='PUT class rename back@1.6'))
        out.append(reqs.put_class(CX, mv='1.6', body={'name': 'FANCY'},
                                  tag='PUT class rename to not CUSTOM_@1.6'))
        out.append(reqs.put_class(CX, mv='1.6', body={'name': 'VCPU'},
                                  tag='PUT class rename to standard@1.6'))
        out.append(reqs.put_class('VCPU', mv='1.6', body={'name': CY},
                                  tag='PUT class rename standard@1.6'))
        out.append(reqs.put_class(CX, mv='1.1', body={'name': CY}, tag='PUT class@1.1'))
        out.append(reqs.del_class(CX, mv='1.2', tag='DELETE class custom@1.2'))
        out.append(reqs.del_class(CY, tag='DELETE class CUSTOM_Y'))
        out.append(reqs.del_class('VCPU', tag='DELETE class standard'))
        out.append(reqs.del_class('CUSTOM_NOPE', tag='DELETE class unknown'))
        out.append(reqs.del_class(CX, mv='1.1', tag='DELETE class@1.1'))
        out.append(reqs.put_trait(T1, mv='1.5', tag='PUT trait@1.5'))
        out.append(reqs.put_trait(T1, mv='1.6', tag='PUT trait@1.6'))
        out.append(reqs.put_trait(STD_TRAIT, tag='PUT trait standard'))
        out.append(reqs.put_trait('FANCY', tag='PUT trait not CUSTOM_'))
        out.append(reqs.put_trait('CUSTOM_lower', tag='PUT trait lower case'))
        out.append(reqs.del_trait(T1, mv='1.5', tag='DELETE trait@1.5'))
        out.append(reqs.del_trait(T1, mv='1.6', tag='DELETE trait custom@1.6'))
        out.append(reqs.del_trait(STD_TRAIT, tag='DELETE trait standard'))
        out.append(reqs.del_trait('CUSTOM_NOPE', tag='DELETE trait unknown'))
        return out

    def _inventory_ops(self, d, rp, full, primary):
        out = []
        g = gen_of(d, rp)
        have = {rc: strip(i) for (r, rc), i in d.inventories.items() if r == rp}
        put = lambda invs, tag, mv='1.39', gen=g: reqs.put_invs(rp, gen, invs, mv=mv, tag=tag)
        out.append(put({'VCPU': FOUR}, 'PUT inventories {VCPU}'))
        out.append(put({}, 'PUT inventories {}'))
        if primary:
            out.append(put({'VCPU': FOUR, 'DISK_GB': VA}, 'PUT inventories {VCPU,DISK_GB}'))
            out.append(put({'VCPU': FOUR, 'DISK_GB': VA, CX: FOUR},
                           'PUT inventories {VCPU,DISK_GB,CUSTOM_X}'))
            out.append(put({'VCPU': ONE}, 'PUT inventories {VCPU:1} shrink'))
        out.append(reqs.del_invs(rp, tag='DELETE inventories'))
        for rc in (('VCPU', 'DISK_GB', CX) if primary else ('VCPU',)):
            out.append(reqs.del_inv(rp, rc, tag='DELETE inventory ' + rc))
        out.append(reqs.put_inv(rp, 'VCPU', g, VS, tag='PUT inventory VCPU'))
        if not full or not primary:
            return out
        out.append(put({'VCPU': FOUR}, 'PUT inventories {VCPU}@1.0', mv='1.0'))
        out.append(put(have, 'PUT inventories unchanged'))
        out.append(put({'VCPU': FOUR}, 'PUT inventories stale generation', gen=g + 1))
        out.append(put({'CUSTOM_NOPE': FOUR}, 'PUT inventories unknown class'))
        out.append(put({'CUSTOM_NOPE': FOUR}, 'PUT inventories unknown class + stale', gen=g + 1))
        out.append(put({'VCPU': {'reserved': 1}}, 'PUT inventories without total'))
        out.append(put({'VCPU': {'total': 'four'}}, 'PUT inventories total a string'))
        out.append(put({'VCPU': {'total': 4, 'colour': 1}}, 'PUT inventories unknown field'))
        out.append(put({'VCPU': {'total': 2, 'reserved': 3}}, 'PUT inventories reserved > total'))
        for mv in ('1.25', '1.26'):
            out.append(put({'VCPU': {'total': 2, 'reserved': 2}},
                           'PUT inventories reserved = total@' + mv, mv=mv))
        out.append(R('PUT', '/resource_providers/%s/inventories' % rp,
                     {'inventories': {'VCPU': FOUR}}, tag='PUT inventories without generation'))
        out.append(R('PUT', '/resource_providers/%s/inventories' % rp, raw='[1, 2',
                     tag='PUT inventories bad JSON'))
        out.append(reqs.del_invs(rp, mv='1.4', tag='DELETE inventories@1.4'))
        out.append(reqs.del_invs(rp, mv='1.5', tag='DELETE inventories@1.5'))
        out.append(reqs.del_inv(rp, 'VCPU', mv='1.0', tag='DELETE inventory VCPU@1.0'))
        out.append(reqs.del_inv(rp, 'CUSTOM_NOPE', tag='DELETE inventory unknown class'))
        out.append(reqs.put_inv(rp, 'VCPU', g, VS, mv='1.0', tag='PUT inventory VCPU@1.0'))
        out.append(reqs.put_inv(rp, 'VCPU', g + 1, VS, tag='PUT inventory stale generation'))
        out.append(reqs.put_inv(rp, 'VCPU', g, {'reserved': 0}, tag='PUT inventory without total'))
        out.append(reqs.put_inv(rp, 'VCPU', g, {'total': 2, 'reserved': 3},
                                tag='PUT inventory reserved > total'))
        for mv in ('1.25', '1.26'):
            out.append(reqs.put_inv(rp, 'VCPU', g, {'total': 2, 'reserved': 2}, mv=mv,
                                    tag='PUT inventory reserved = total@' + mv))
        out.append(reqs.put_inv(rp, 'CUSTOM_NOPE', g, FOUR, tag='PUT inventory unknown class'))
        if primary:
            out.append(reqs.put_inv(rp, 'DISK_GB', g, ONE, tag='PUT inventory DISK_GB shrink'))
            out.append(reqs.put_invs(UNKNOWN_UUID, 0, {'VCPU': FOUR},
                                     tag='PUT inventories unknown provider'))
            out.append(reqs.put_inv(UNKNOWN_UUID, 'VCPU', 0, FOUR,
                                    tag='PUT inventory unknown provider'))
            out.append(reqs.del_invs(UNKNOWN_UUID, tag='DELETE inventories unknown provider'))
            out.append(reqs.del_inv(UNKNOWN_UUID, 'VCPU', tag='DELETE inventory unknown provider'))
        return out

    def _rp_trait_agg_ops(self, d, rp, full, primary):
        out = []
        g = gen_of(d, rp)
        out.append(reqs.put_traits(rp, g, [T1], tag='PUT rp traits [custom]'))
        out.append(reqs.put_traits(rp, g, [], tag='PUT rp traits []'))
        out.append(reqs.put_aggs(rp, g, [A(2)], tag='PUT aggregates [A2]'))
        out.append(reqs.put_aggs(rp, g, [], tag='PUT aggregates []'))
        if primary:
            out.append(reqs.put_traits(rp, g, [STD_TRAIT, T1], tag='PUT rp traits [std,custom]'))
            out.append(reqs.put_aggs(rp, g, [A(1), A(2)], tag='PUT aggregates [A1,A2]'))
            out.append(reqs.del_traits(rp, tag='DELETE rp traits'))
        if not full or not primary:
            return out
        cur_t = sorted(t for (r, t) in d.rp_traits if r == rp)
        cur_a = sorted(a for (r, a) in d.rp_aggs if r == rp)
        out.append(reqs.put_traits(rp, g, [STD_TRAIT], tag='PUT rp traits [std]'))
        out.append(reqs.put_traits(rp, g, cur_t, tag='PUT rp traits unchanged'))
        out.append(reqs.put_traits(rp, g, [STD_TRAIT], mv='1.5', tag='PUT rp traits@1.5'))
        out.append(reqs.put_traits(rp, g, [STD_TRAIT], mv='1.6', tag='PUT rp traits@1.6'))
        out.append(reqs.put_traits(rp, g + 1, [STD_TRAIT], tag='PUT rp traits stale generation'))
        out.append(reqs.put_traits(rp, g, ['CUSTOM_NOPE'], tag='PUT rp traits unknown trait'))
        out.append(reqs.put_traits(rp, g + 1, ['CUSTOM_NOPE'],
                                   tag='PUT rp traits unknown trait + stale'))
        out.append(R('PUT', '/resource_providers/%s/traits' % rp, {'traits': [STD_TRAIT]},
                     tag='PUT rp traits without generation'))
        out.append(R('PUT', '/resource_providers/%s/traits' % rp,
                     {'traits': STD_TRAIT, 'resource_provider_generation': g},
                     tag='PUT rp traits not a list'))
        out.append(reqs.del_traits(rp, mv='1.5', tag='DELETE rp traits@1.5'))
        out.append(reqs.del_traits(rp, mv='1.6', tag='DELETE rp traits@1.6'))
        out.append(reqs.put_aggs(rp, g, [A(1)], mv='1.0', tag='PUT aggregates@1.0'))
        out.append(reqs.put_aggs(rp, g, [A(1)], mv='1.1', tag='PUT aggregates@1.1 [A1]'))
        out.append(reqs.put_aggs(rp, g, [A(2)], mv='1.18', tag='PUT aggregates@1.18 [A2]'))
        out.append(reqs.put_aggs(rp, g, [A(1)], mv='1.19', tag='PUT aggregates@1.19 [A1]'))
        out.append(reqs.put_aggs(rp, g, cur_a, tag='PUT aggregates unchanged'))
        out.append(reqs.put_aggs(rp, g + 1, [A(1)], tag='PUT aggregates stale generation'))
        out.append(R('PUT', '/resource_providers/%s/aggregates' % rp,
                     {'aggregates': [A(1)], 'resource_provider_generation': g}, mv='1.18',
                     tag='PUT aggregates@1.18 object body'))
        out.append(R('PUT', '/resource_providers/%s/aggregates' % rp, [A(1)], mv='1.19',
                     tag='PUT aggregates@1.19 list body'))
        out.append(R('PUT', '/resource_providers/%s/aggregates' % rp, {'aggregates': [A(1)]},
                     mv='1.19', tag='PUT aggregates@1.19 without generation'))
        out.append(reqs.put_aggs(rp, g, [BAD_UUID], tag='PUT aggregates malformed uuid'))
        if primary:
            out.append(reqs.put_traits(UNKNOWN_UUID, 0, [STD_TRAIT],
                                       tag='PUT rp traits unknown provider'))
            out.append(reqs.del_traits(UNKNOWN_UUID, tag='DELETE rp traits unknown provider'))
            out.append(reqs.put_aggs(UNKNOWN_UUID, 0, [A(1)],
                                     tag='PUT aggregates unknown provider'))
            out.append(reqs.put_aggs(UNKNOWN_UUID, 0, [A(1)], mv='1.18',
                                     tag='PUT aggregates@1.18 unknown provider'))
        return out

    def _alloc_ops(self, d, k, full, primary):
        out = []
        p1, p2 = self.provs[0], self.provs[1]
        cg = cgen_of(d, k)
        one = {p1: {'VCPU': 1}}
        pa = lambda allocs, tag, mv='1.39', **kw: reqs.put_alloc(
            k, allocs, mv=mv, tag=tag, **dict({'cgen': cg}, **kw))
        out.append(pa(one, 'PUT alloc P1:VCPU'))
        out.append(pa({p1: {'VCPU': 1, 'DISK_GB': 2}}, 'PUT alloc P1:VCPU+DISK_GB'))
        out.append(pa({p1: {'VCPU': 2}, p2: {'VCPU': 1}}, 'PUT alloc P1:VCPU*2+P2:VCPU',
                      project='p2', user='u2', ctype='MIGRATION'))
        out.append(pa({}, 'PUT alloc {}'))
        out.append(reqs.del_alloc(k, tag='DELETE alloc'))
        if not full:
            return out
        if not primary:
            out.append(pa(one, 'PUT alloc@1.12 dict', mv='1.12'))
            out.append(pa(one, 'PUT alloc@1.7 list', mv='1.7'))
            out.append(pa(one, 'PUT alloc stale consumer generation', cgen=cgen_of(d, k, True)))
            return out
        out.append(pa({p1: {CX: 3}}, 'PUT alloc P1:CUSTOM_X*3'))
        out.append(pa({p1: {'VCPU': 4}}, 'PUT alloc P1:VCPU*4 (all of it)'))
        out.append(pa(one, 'PUT alloc other project/user', project='p2', user='u1'))
        out.append(pa(one, 'PUT alloc MIGRATION', ctype='MIGRATION'))
        # body formats and required fields on both sides of each change
        out.append(pa(one, 'PUT alloc@none list', mv=None))
        out.append(pa(one, 'PUT alloc@1.7 list', mv='1.7'))
        out.append(pa(one, 'PUT alloc@1.8 list+project', mv='1.8', project='p2', user='u2'))
        out.append(pa(one, 'PUT alloc@1.12 dict', mv='1.12'))
        out.append(pa({p1: {'VCPU': 1}, p2: {'VCPU': 2}}, 'PUT alloc@1.27 two providers',
                      mv='1.27', project='p2', user='u2'))
        out.append(pa(one, 'PUT alloc@1.28', mv='1.28'))
        out.append(pa(one, 'PUT alloc@1.37', mv='1.37', project='p2', user='u1'))
        out.append(pa(one, 'PUT alloc@1.38', mv='1.38'))
        out.append(pa(one, 'PUT alloc@1.34 mappings', mv='1.34', mappings={'': [p1]}))
        r = pa(one, 'PUT alloc@1.33 mappings (not yet accepted)', mv='1.34',
               mappings={'': [p1]})
        r['mv'] = '1.33'
        out.append(r)
        b18 = reqs.alloc_body(one, '1.8')
        out.append(self._raw_alloc(k, b18, '1.7', 'PUT alloc@1.7 with project (not yet accepted)'))
        out.append(self._raw_alloc(k, reqs.alloc_body(one, '1.7'), '1.8',
                                   'PUT alloc@1.8 without project'))
        out.append(self._raw_alloc(k, reqs.alloc_body(one, '1.12'), '1.11',
                                   'PUT alloc@1.11 dict format (not yet accepted)'))
        out.append(self._raw_alloc(k, reqs.alloc_body(one, '1.8'), '1.12',
                                   'PUT alloc@1.12 list format (no longer accepted)'))
        out.append(self._raw_alloc(k, reqs.alloc_body(one, '1.28', cgen=cg), '1.27',
                                   'PUT alloc@1.27 with consumer_generation (not yet accepted)'))
        out.append(self._raw_alloc(k, reqs.alloc_body(one, '1.27'), '1.28',
                                   'PUT alloc@1.28 without consumer_generation'))
        out.append(self._raw_alloc(k, reqs.alloc_body(one, '1.38', cgen=cg), '1.37',
                                   'PUT alloc@1.37 with consumer_type (not yet accepted)'))
        out.append(self._raw_alloc(k, reqs.alloc_body(one, '1.37', cgen=cg), '1.38',
                                   'PUT alloc@1.38 without consumer_type'))
        out.append(self._raw_alloc(k, reqs.alloc_body({}, '1.27'), '1.27',
                                   'PUT alloc@1.27 {} (not yet accepted)'))
        out.append(pa({}, 'PUT alloc@1.28 {}', mv='1.28'))
        out.append(pa(one, 'PUT alloc bad consumer_type', ctype='bad-type'))
        out.append(R('PUT', '/allocations/' + k, raw='{"allocations": {', tag='PUT alloc bad JSON'))
        # generations
        out.append(pa(one, 'PUT alloc stale consumer generation', cgen=cgen_of(d, k, True)))
        out.append(pa(one, 'PUT alloc consumer generation null', cgen=None))
        # 0 is what a record carries between its creation and its first write: never a valid
        # generation to send (a consumer that does not exist takes null only)
        out.append(pa(one, 'PUT alloc consumer generation 0', cgen=0))
        out.append(pa({}, 'PUT alloc {} consumer generation null', cgen=None))
        out.append(pa({}, 'PUT alloc {} stale consumer generation', cgen=cgen_of(d, k, True)))
        # semantic rejections
        out.append(pa({UNKNOWN_UUID: {'VCPU': 1}}, 'PUT alloc unknown provider'))
        out.append(pa({UNKNOWN_UUID: {'VCPU': 1}}, 'PUT alloc@1.8 unknown provider', mv='1.8'))
        out.append(pa({p1: {'VCPU': 1}, UNKNOWN_UUID: {'VCPU': 1}},
                      'PUT alloc second provider unknown'))
        out.append(pa({BAD_UUID: {'VCPU': 1}}, 'PUT alloc malformed provider uuid'))
        out.append(pa({p1: {'CUSTOM_NOPE': 1}}, 'PUT alloc unknown class'))
        out.append(pa({p1: {'MEMORY_MB': 1}}, 'PUT alloc class without inventory'))
        out.append(pa({p1: {'VCPU': 5}}, 'PUT alloc over capacity'))
        out.append(pa({p1: {'DISK_GB': 3}}, 'PUT alloc above max_unit'))
        out.append(pa({p1: {'VCPU': 1}, p2: {'VCPU': 5}}, 'PUT alloc second provider over capacity'))
        out.append(pa({UNKNOWN_UUID: {'VCPU': 1}}, 'PUT alloc unknown provider + stale',
                      cgen=cgen_of(d, k, True)))
        if primary:
            out.append(reqs.put_alloc(BAD_UUID, one, cgen=None,
                                      tag='PUT alloc malformed consumer uuid'))
            out.append(reqs.del_alloc(UNKNOWN_UUID, tag='DELETE alloc unknown consumer'))
            out.append(reqs.del_alloc(k, mv='1.0', tag='DELETE alloc@1.0'))
        return out

    @staticmethod
    def _raw_alloc(k, body, mv, tag):
        return R('PUT', '/allocations/' + k, body, mv=mv, tag=tag)

    def _bulk_ops(self, d, full):
        out = []
        p1, p2 = self.provs[0], self.provs[1]
        k1, k2 = self.cons[0], self.cons[1]

        def ent(k, allocs, **kw):
            e = {'allocs': allocs, 'cgen': cgen_of(d, k)}
            e.update(kw)
            return e
        both = {k1: ent(k1, {p1: {'VCPU': 1}}), k2: ent(k2, {p1: {'VCPU': 1}, p2: {'VCPU': 1}},
                                                          project='p2', user='u2',
                                                          ctype='MIGRATION')}
        swap = {k1: ent(k1, {}), k2: ent(k2, {p1: {'VCPU': 2}})}
        out.append(reqs.post_allocs(both, tag='POST allocs K1,K2'))
        out.append(reqs.post_allocs(swap, tag='POST allocs K1 cleared, K2 on P1'))
        # the consumer named by an upper-case spelling of its uuid (the schema accepts it)
        out.append(reqs.post_allocs({k1.upper(): ent(k1, {p1: {'VCPU': 1}})},
                                    tag='POST allocs K1 in upper case'))
        # reshaper: move VCPU of P1 (inventory and every consumer's allocation) to P2
        moved = {}
        for k in self.cons:
            al = allocs_of(d, k)
            if p1 in al and 'VCPU' in al[p1]:
                new = {rp: dict(r) for rp, r in al.items()}
                amt = new[p1].pop('VCPU')
                if not new[p1]:
                    del new[p1]
                new.setdefault(p2, {})
                new[p2]['VCPU'] = new[p2].get('VCPU', 0) + amt
                c = d.consumers[k]
                moved[k] = ent(k, new, project=c['project'], user=c['user'],
                               ctype=c['type'] or 'INSTANCE')
        if p1 in d.providers and p2 in d.providers:
            rest = {rc: strip(i) for (r, rc), i in d.inventories.items()
                    if r == p1 and rc != 'VCPU'}
            shape = {p1: (gen_of(d, p1), rest), p2: (gen_of(d, p2), {'VCPU': {'total': 8}})}
            out.append(reqs.reshaper(shape, moved, tag='reshaper VCPU P1->P2'))
            if full:
                out.append(reqs.reshaper(shape, moved, mv='1.29', tag='reshaper@1.29'))
                out.append(reqs.reshaper(shape, moved, mv='1.30', tag='reshaper@1.30'))
                out.append(reqs.reshaper(shape, moved, mv='1.37', tag='reshaper@1.37'))
                out.append(reqs.reshaper(shape, {}, tag='reshaper moves nobody'))
                stale = {p1: (gen_of(d, p1, True), rest), p2: shape[p2]}
                out.append(reqs.reshaper(stale, moved, tag='reshaper stale provider generation'))
                small = {p1: shape[p1], p2: (gen_of(d, p2), {'VCPU': ONE})}
                out.append(reqs.reshaper(small, moved, tag='reshaper target too small'))
                unk = {p1: shape[p1], UNKNOWN_UUID: (0, {'VCPU': FOUR})}
                out.append(reqs.reshaper(unk, moved, tag='reshaper unknown provider'))
                r = reqs.reshaper(shape, moved, tag='reshaper without allocations key')
                del r['body']['allocations']
                out.append(r)
        if not full:
            return out
        out.append(reqs.post_allocs(both, mv='1.12', tag='POST allocs@1.12'))
        out.append(reqs.post_allocs(both, mv='1.13', tag='POST allocs@1.13'))
        out.append(reqs.post_allocs(both, mv='1.28', tag='POST allocs@1.28'))
        out.append(reqs.post_allocs(both, mv='1.38', tag='POST allocs@1.38'))
        out.append(reqs.post_allocs(swap, mv='1.13', tag='POST allocs@1.13 K1 cleared'))
        r = reqs.post_allocs(both, mv='1.28', tag='POST allocs@1.27 with consumer_generation')
        r['mv'] = '1.27'
        out.append(r)
        r = reqs.post_allocs(both, mv='1.37', tag='POST allocs@1.38 without consumer_type')
        r['mv'] = '1.38'
        out.append(r)
        stale = {k1: ent(k1, {p1: {'VCPU': 1}}), k2: ent(k2, {p1: {'VCPU': 1}})}
        stale[k2]['cgen'] = cgen_of(d, k2, True)
        out.append(reqs.post_allocs(stale, tag='POST allocs second consumer stale'))
        over = {k1: ent(k1, {p1: {'VCPU': 2}}), k2: ent(k2, {p1: {'VCPU': 3}})}
        out.append(reqs.post_allocs(over, tag='POST allocs jointly over capacity'))
        fit = {k1: ent(k1, {p1: {'VCPU': 2}}), k2: ent(k2, {p1: {'VCPU': 2}})}
        out.append(reqs.post_allocs(fit, tag='POST allocs jointly filling capacity'))
        unk = {k1: ent(k1, {p1: {'VCPU': 1}}), k2: ent(k2, {UNKNOWN_UUID: {'VCPU': 1}})}
        out.append(reqs.post_allocs(unk, tag='POST allocs second consumer unknown provider'))
        out.append(reqs.post_allocs({BAD_UUID: ent(k1, {p1: {'VCPU': 1}})},
                                    tag='POST allocs malformed consumer uuid'))
        return out

    def _misc_ops(self, d):
        """Reads with invalid arguments / at versions that do not have them yet."""
        out = []
        p1 = self.provs[0]
        g = lambda path, tag, mv='1.39', q=None: R('GET', path, mv=mv, query=q, tag=tag)
        out.append(g('/', 'GET /'))
        out.append(g('/', 'GET /@none', mv=None))
        out.append(g('/resource_providers/' + UNKNOWN_UUID, 'GET rp unknown'))
        out.append(g('/resource_providers/' + BAD_UUID, 'GET rp malformed uuid'))
        for sub in ('inventories', 'inventories/VCPU', 'usages', 'aggregates', 'traits',
                    'allocations'):
            out.append(g('/resource_providers/%s/%s' % (UNKNOWN_UUID, sub),
                         'GET rp/%s unknown provider' % sub))
        out.append(g('/resource_providers/%s/inventories/MEMORY_MB' % p1,
                     'GET inventory of a class the provider lacks'))
        out.append(g('/resource_providers/%s/inventories/CUSTOM_NOPE' % p1,
                     'GET inventory unknown class'))
        out.append(g('/resource_providers/%s/aggregates' % p1, 'GET aggregates@1.0', mv='1.0'))
        out.append(g('/resource_providers/%s/traits' % p1, 'GET rp traits@1.5', mv='1.5'))
        out.append(g('/resource_providers', 'GET rps in_tree@1.13', mv='1.13',
                     q='in_tree=' + p1))
        out.append(g('/resource_providers', 'GET rps in_tree malformed', q='in_tree=' + BAD_UUID))
        out.append(g('/resource_providers', 'GET rps unknown parameter', q='colour=red'))
        out.append(g('/traits', 'GET traits@1.5', mv='1.5'))
        out.append(g('/traits', 'GET traits bad name filter', q='name=CUSTOM'))
        out.append(g('/traits', 'GET traits bad associated', q='associated=maybe'))
        out.append(g('/traits/CUSTOM_NOPE', 'GET trait unknown'))
        out.append(g('/traits/' + STD_TRAIT, 'GET trait@1.5', mv='1.5'))
        out.append(g('/resource_classes', 'GET classes@1.1', mv='1.1'))
        out.append(g('/resource_classes/CUSTOM_NOPE', 'GET class unknown'))
        out.append(g('/resource_classes/VCPU', 'GET class@1.1', mv='1.1'))
        out.append(g('/usages', 'GET usages without project_id'))
        out.append(g('/usages', 'GET usages@1.8', mv='1.8', q='project_id=p1'))
        out.append(g('/usages', 'GET usages@1.37 consumer_type', mv='1.37',
                     q='project_id=p1&consumer_type=all'))
        out.append(g('/usages', 'GET usages unknown parameter', q='project_id=p1&colour=red'))
        out.append(g('/allocations/' + UNKNOWN_UUID, 'GET allocations unknown consumer'))
        out.append(g('/allocation_candidates', 'GET allocation_candidates', q='resources=VCPU:1'))
        out.append(g('/allocation_candidates', 'GET allocation_candidates@1.9', mv='1.9',
                     q='resources=VCPU:1'))
        return out

    # -- oracles -------------------------------------------------------------------------
    def on_transition(self, pre, req, resp, run, post):
        v = []
        tag = req.get('tag') or '%s %s' % (req['method'], req['path'])
        model = RefPlacement.from_dump(pre)
        try:
            out = model.plan(req)
        except NotModelled as e:
            # a defect of this check, never a property violation: surfaces as a harness error
            raise RuntimeError('alphabet entry %r is outside the model: %s' % (tag, e))
        st = resp.status
        desc = '%s %s @%s %s' % (req['method'], req['path'], req.get('mv'),
                                 json.dumps(req.get('body', req.get('raw')))[:300])
        if st not in out.statuses:
            v.append(('c11-status:%s:%s' % (tag, st),
                      '%s answered %s %s; documented: %s (%s)' % (
                          desc, st, resp.raw[:200], sorted(out.statuses), out.why())))
        success = 200 <= st < 300
        if success and st not in out.statuses:
            return v            # the model has no effect to offer for an undocumented success
        if success and out.effect:
            out.effect()
        for sec, text in RefPlacement.diff_core(model.as_core(), RefPlacement.core_of_dump(post)):
            v.append(('c11-state:%s:%s' % (tag, sec),
                      'after %s -> %s the rows differ from the documented result in %s: %s' % (
                          desc, st, sec, text)))
        v += self._gen_relations(tag, desc, req, st, out, pre, post)
        model.read_back_generations(post)
        if success:
            if out.body is not None and out.check_body:
                want, got = norm(out.body()), norm(resp.json)
                if want != got:
                    v.append(('c11-body:%s' % tag, '%s -> %s body %s, documented %s' % (
                        desc, st, json.dumps(got, sort_keys=True)[:600],
                        json.dumps(want, sort_keys=True)[:600])))
            elif out.body is None and out.check_body and resp.raw not in (b'', None):
                v.append(('c11-body:%s' % tag, '%s -> %s must have no body, got %r' % (
                    desc, st, resp.raw[:200])))
        return v

    @staticmethod
    def _gen_relations(tag, desc, req, st, out, pre, post):
        v = []
        pg0, cg0 = pre.gens()
        pg1, cg1 = post.gens()
        if st >= 400 or req['method'] == 'GET':
            if (pg0, cg0) != (pg1, cg1):
                v.append(('c11-gen:%s:%s' % (tag, 'rejected' if st >= 400 else 'read'),
                          '%s -> %s changed generations %s -> %s' % (desc, st, (pg0, cg0),
                                                                    (pg1, cg1))))
            return v
        for u, g in pg1.items():
            if u not in pg0 or pre.rp_ids.get(u) != post.rp_ids.get(u):
                continue
            if g < pg0[u] or (u in out.bump_rps and g <= pg0[u]):
                v.append(('c11-gen:%s:provider' % tag,
                          '%s -> %s: provider %s generation %s -> %s (%s)' % (
                              desc, st, u, pg0[u], g, 'must increase' if u in out.bump_rps
                              else 'must not decrease')))
        for c, g in cg1.items():
            if c in cg0 and c in out.bump_consumers and g <= cg0[c]:
                v.append(('c11-gen:%s:consumer' % tag,
                          '%s -> %s: consumer %s generation %s -> %s must increase' % (
                              desc, st, c, cg0[c], g)))
        return v

    # -- read probes ---------------------------------------------------------------------
    def probes(self, d):
        out = []
        g = lambda path, mv='1.39', q=None: R('GET', path, mv=mv, query=q)
        for i, u in enumerate(sorted(d.providers)):
            base = '/resource_providers/' + u
            out += [g(base), g(base, '1.13'), g(base + '/inventories'), g(base + '/usages'),
                    g(base + '/traits'), g(base + '/allocations'),
                    g(base + '/allocations', '1.27'), g(base + '/aggregates'),
                    g(base + '/aggregates', '1.18'),
                    g('/resource_providers', q='in_tree=' + u)]
            if i == 0:
                out += [g(base, '1.14'), g(base + '/aggregates', '1.19'),
                        g('/resource_providers', q='uuid=' + u),
                        g('/resource_providers', q='name=' + d.providers[u]['name'])]
            for (r, rc) in sorted(d.inventories):
                if r == u:
                    out.append(g('%s/inventories/%s' % (base, rc)))
        out += [g('/resource_providers'), g('/resource_providers', '1.13'),
                g('/resource_providers', '1.14', 'in_tree=' + UNKNOWN_UUID)]
        for c in sorted(set(d.consumers) | set(self.cons)):
            for mv in ('1.11', '1.12', '1.28', '1.38'):
                if c in d.consumers or mv == '1.38':
                    out.append(g('/allocations/' + c, mv))
        pairs = sorted({(c['project'], c['user']) for c in d.consumers.values()})
        types = sorted({c['type'] for c in d.consumers.values() if c['type']})
        for p, u in pairs:
            out += [g('/usages', '1.9', 'project_id=%s' % p),
                    g('/usages', '1.38', 'project_id=%s' % p),
                    g('/usages', '1.38', 'project_id=%s&user_id=%s' % (p, u)),
                    g('/usages', '1.38', 'project_id=%s&consumer_type=all' % p),
                    g('/usages', '1.38', 'project_id=%s&consumer_type=unknown' % p)]
            for t in types:
                out.append(g('/usages', '1.38', 'project_id=%s&consumer_type=%s' % (p, t)))
        out += [g('/usages', '1.37', 'project_id=p1&user_id=u-other'),
                g('/usages', '1.38', 'project_id=p-nobody'),
                g('/traits', q='name=startswith:CUSTOM_'), g('/traits', q='associated=true'),
                g('/traits', q='associated=false&name=in:%s,%s,CUSTOM_NOPE' % (STD_TRAIT, T1)),
                g('/traits', '1.6'), g('/traits/' + T1),
                g('/resource_classes'), g('/resource_classes/' + CX),
                g('/resource_classes/' + CY, '1.2')]
        return out

    def _claim(self, d):
        """Every distinct state is probed once per exploration, by the first worker to reach it
        (the engine's known-set is per worker; the probes cost more than the transitions)."""
        parent = os.environ.get('VP_SHM_PARENT')
        if not parent or not os.path.isdir(parent):
            return True                         # replay / single process: always probe
        dirp = os.path.join(parent, 'c11-probed')
        try:
            os.makedirs(dirp, exist_ok=True)
            os.close(os.open(os.path.join(dirp, self.canon(d)),
                             os.O_CREAT | os.O_EXCL | os.O_WRONLY))
            return True
        except FileExistsError:
            return False

    def on_state(self, d, h, call):
        v = []
        if not self._claim(d):
            return v
        model = RefPlacement.from_dump(d)
        seen = {}
        for req in self.probes(d):
            name = _probe_name(req)
            try:
                out = model.plan(req)
            except NotModelled as e:
                raise RuntimeError('probe %r is outside the model: %s' % (name, e))
            resp, _ = call(req)
            seen[(req['path'], req.get('mv'), req.get('query'))] = resp
            if resp.status not in out.statuses:
                v.append(('c11-read-status:%s:%s' % (name, resp.status),
                          'GET %s?%s @%s answered %s %s, documented %s (%s)' % (
                              req['path'], req.get('query'), req.get('mv'), resp.status,
                              resp.raw[:200], sorted(out.statuses), out.why())))
                continue
            if 200 <= resp.status < 300:
                if out.body is None:
                    if resp.raw not in (b'', None):
                        v.append(('c11-read:' + name, 'GET %s must have no body' % req['path']))
                    continue
                try:
                    want, got = norm(out.body()), norm(resp.json)
                except KeyError as e:
                    # the rows refer to something that is not recorded (e.g. allocations of a
                    # consumer without a consumer row): no sequence of successful requests
                    # produces such rows, and the reference model cannot even render them
                    v.append(('c11-rows-inconsistent:' + name,
                              'the stored rows cannot be the result of successful requests: %r '
                              'is referred to but not recorded (while rendering GET %s)' % (
                                  e.args[0], req['path'])))
                    continue
                if '/usages' in name:
                    want, got = _drop_zero(want), _drop_zero(got)
                if want != got:
                    v.append(('c11-read:' + name,
                              'GET %s?%s @%s reports %s; the rows say %s' % (
                                  req['path'], req.get('query'), req.get('mv'),
                                  json.dumps(got, sort_keys=True)[:700],
                                  json.dumps(want, sort_keys=True)[:700])))
        v += self._cross_views(d, seen)
        after = type(d)(h.dbfile)
        if after.core(gens=True, aux=True) != d.core(gens=True, aux=True):
            v.append(('c11-read-wrote', 'the read probes changed the database'))
        return v

    @staticmethod
    def _cross_views(d, seen):
        """Relations between the API's own answers (no model): usages = sum of the listed
        allocations; per-consumer and per-provider allocation views agree."""
        v = []
        by_provider = {}     # (consumer, rp, rc) -> amount, from the provider views
        for u in d.providers:
            ra = seen.get(('/resource_providers/%s/allocations' % u, '1.39', None))
            ru = seen.get(('/resource_providers/%s/usages' % u, '1.39', None))
            if ra is None or ru is None or ra.status != 200 or ru.status != 200:
                continue
            sums = {}
            for c, e in (ra.json or {}).get('allocations', {}).items():
                for rc, amt in e.get('resources', {}).items():
                    sums[rc] = sums.get(rc, 0) + amt
                    by_provider[(c, u, rc)] = amt
            usages = {rc: a for rc, a in (ru.json or {}).get('usages', {}).items() if a}
            if usages != sums:
                v.append(('c11-xview:usages-vs-allocations',
                          'provider %s: usages %s but its listed allocations sum to %s' % (
                              u, usages, sums)))
        by_consumer = {}
        for c in d.consumers:
            rc_ = seen.get(('/allocations/' + c, '1.38', None))
            if rc_ is None or rc_.status != 200:
                continue
            for u, e in (rc_.json or {}).get('allocations', {}).items():
                for rc, amt in e.get('resources', {}).items():
                    by_consumer[(c, u, rc)] = amt
        if by_consumer != by_provider:
            v.append(('c11-xview:consumer-vs-provider',
                      'per-consumer view %s and per-provider view %s of the allocations differ'
                      % (sorted(by_consumer.items()), sorted(by_provider.items()))))
        return v


def _probe_name(req):
    """Stable name of a probe: path with identifiers replaced, version, query shape."""
    segs = ['{uuid}' if len(x) == 36 and x.count('-') == 4 else x
            for x in req['path'].split('/')]
    name = 'GET %s@%s' % ('/'.join(segs), req.get('mv'))
    bits = []
    for kv in (req.get('query') or '').split('&'):
        if not kv:
            continue
        k, _, val = kv.partition('=')
        if k in ('consumer_type', 'associated'):
            bits.append('%s=%s' % (k, val))
        elif k == 'name' and ':' in val:
            bits.append('%s=%s:' % (k, val.split(':')[0]))
        else:
            bits.append(k)
    if bits:
        name += '?' + '&'.join(sorted(bits))
    return name


def _drop_zero(body):
    """Usage reports: an absent class and a class reported with 0 are the same statement, and
    so are an absent consumer-type group and a group of no consumers."""
    if not isinstance(body, dict) or not isinstance(body.get('usages'), dict):
        return body
    us = {}
    for k, val in body['usages'].items():
        if isinstance(val, dict):
            val = {rc: a for rc, a in val.items() if a != 0 or rc == 'consumer_count'}
            if not val.get('consumer_count') and set(val) <= {'consumer_count'}:
                continue
        elif val == 0:
            continue
        us[k] = val
    return dict(body, usages=us)


def run(ctx):
    if ctx.quick:
        depth, deep_depth = 2, None
        ctx.budget = ctx.budget or 300
        share = 1.0
    else:
        depth, deep_depth = 3, 4
        ctx.budget = ctx.budget or 1150
        share = 0.6
    total = ctx.budget
    # phase 1: the full alphabet (all routes, valid + invalid, all versions) in every state
    # reachable in < depth requests; phase 2 (thorough): state-changing requests at the latest
    # version only, one level deeper
    ctx.budget = total * share
    st = explore_seq.explore(ctx, 'vp.props.c11', 'Spec', ('full',), max_depth=depth)
    t_full = ctx.elapsed()
    st2 = None
    if deep_depth and not ctx.violations:
        ctx.budget = total
        st2 = explore_seq.explore(ctx, 'vp.props.c11', 'Spec', ('deep',), max_depth=deep_depth)
    ctx.budget = total
    ctx.coverage['phase_wall_s'] = {'full': round(t_full, 1),
                                    'deep': round(ctx.elapsed() - t_full, 1)}
    fill(ctx, st, 'lock-step BFS: every transition of the real service is compared with '
         'RefPlacement (documented statuses, effect on the rows, generation relations, response '
         'body) and every new state is read through every GET view at the versions on both '
         'sides of each change and compared with the rows; a case is non-trivial when it '
         'changed state or was rejected')
    cov = ctx.coverage
    cov['full_alphabet'] = {'depth_requested': depth, 'depth_completed': st['depth_completed'],
                            'states': st['states'], 'transitions': st['transitions']}
    if st2:
        cov['deep_alphabet'] = {'depth_requested': deep_depth,
                                'depth_completed': st2['depth_completed'],
                                'states': st2['states'], 'transitions': st2['transitions'],
                                'fixpoint': st2['fixpoint']}
        cov['states'] += st2['states']
        cov['transitions'] += st2['transitions']
        cov['traces_validated_against_impl'] = cov['transitions']
        cov['state_changing_transitions'] += st2['state_changing_transitions']
        cov['rejected_transitions'] += st2['rejected_transitions']
        cov['samples'] = (st['samples'] + st2['samples']) or [['(no sample)']]
    cov['model_agreements'] = cov['transitions'] if not ctx.violations else None
    cov['left_out'] = LEFT_OUT
    cov['status_not_pinned_by_documentation'] = {k: list(s) for k, s in UNPINNED.items()}
    cov['microversions'] = ['none', '1.0', '1.1', '1.2', '1.4', '1.5', '1.6', '1.7', '1.8', '1.9',
                            '1.11', '1.12', '1.13', '1.14', '1.18', '1.19', '1.20', '1.25',
                            '1.26', '1.27', '1.28', '1.29', '1.30', '1.33', '1.34', '1.36',
                            '1.37', '1.38', '1.39']
    ctx.assumptions += [
        'RefPlacement is written from api-ref/source, parameters.yaml and '
        'rest_api_version_history.rst; defaults of omitted inventory fields as in DESIGN 5.C11',
        'from_dump is used as the abstraction function on every transition (the check is '
        'commutation of the implementation step with the model step)',
        'generation numbers are not predicted, only the relations of C10',
        'GET /traits?associated=false is read as "associated with no provider"',
        'where the documentation names an error condition but not its status, the statuses '
        'listed under status_not_pinned_by_documentation are accepted',
    ]


def replay(ctx, data):
    return explore_seq.replay(ctx, data)
