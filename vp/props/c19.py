"""C19 -- standard traits/classes always present and immutable; custom ones namespaced.

E-seq to a fixpoint.  A state is the content of the `traits` and `resource_classes` tables (names
AND resource-class ids) plus the usage of CUSTOM_A by one provider.  The alphabet contains, in
every state, the *restart event* (the start-up synchronisation a new process performs), every
trait / resource-class creation, rename and deletion over a pool of valid, standard and invalid
names, the list views and the requests creating / removing usage.  Start databases: fully
synchronised, never synchronised and three partially synchronised ones (first / middle / last
standard class and a standard trait removed with raw SQL).

Two pseudo-requests are interpreted by a `call` wrapper installed from `Spec.attach` (the engine's
worker factory cannot be replaced from a spec module, `attach(h, worker)` can wrap `worker.call`):
  {'method': 'RESTART'}            -> worker.h.restart()
  {'method': 'SQL', 'body': [...]} -> statements executed with sqlite3 directly on the file

Resource-class ids are kept in the canonical state, so the space is infinite (ids only grow when a
class below the maximum is deleted and re-created).  It is made finite by a stated bound: creation
of a new class is only enabled while the next id stays below 10000 + K.  Within that bound the
search runs to a fixpoint, i.e. covers request histories of every length.

The oracle is a small reference model of the two tables written from the property statement and
api-ref/source/{traits,resource_classes,resource_class}.inc; name validity is decided by an
explicit character loop, not by the service's regular expressions.
"""
import hashlib
import sqlite3

from vp import explore_seq, reqs
from vp.http import R, Resp
from vp.names import P
from vp.probe import Run
from vp.props.c01 import fill
from vp.snapshot import STD_CLASS_SET, STD_CLASSES, STD_TRAITS, Dump

MIN_CUSTOM = 10000
NAMES = {'A': 'CUSTOM_A', 'B': 'CUSTOM_B', 'L': 'CUSTOM_' + 'X' * 248}    # 'L' is 255 long
L256 = 'CUSTOM_' + 'X' * 249
NL = 'CUSTOM_A\n'
STD_T = 'HW_CPU_X86_AVX'
STD_C = 'VCPU'
# (label, logical name, path token)
BAD = [('lower', 'custom_a', 'custom_a'), ('noprefix', 'A', 'A'), ('prefix-only', 'CUSTOM_', 'CUSTOM_'),
       ('badchars', 'CUSTOM_a-b', 'CUSTOM_a-b'), ('256', L256, L256),
       ('newline', NL, 'CUSTOM_A%0A'),
       # names that only look valid once pasted into / decoded from a JSON document
       ('json-escape', 'CUSTOM_\\u0041', 'CUSTOM_%5Cu0041'),
       ('json-inject', 'CUSTOM_A","name":"CUSTOM_B', 'CUSTOM_A%22%2C%22name%22%3A%22CUSTOM_B'),
       # characters that are "digits" / "letters" to Unicode-aware classes but not [A-Z0-9_]
       ('unicode-digit', 'CUSTOM_A\u0663', 'CUSTOM_A%D9%A3'),
       ('fullwidth', 'CUSTOM_\uff21\uff17', 'CUSTOM_%EF%BC%A1%EF%BC%97')]
ALLOWED = frozenset('ABCDEFGHIJKLMNOPQRSTUVWXYZ0123456789_')
RP = P(1)
NEW = object()

STD_CLASS_ID = {n: i for i, n in enumerate(STD_CLASSES)}
_SORTED_TRAITS = sorted(STD_TRAITS)
UNSYNC = {
    'never': ['DELETE FROM traits', 'DELETE FROM resource_classes'],
    'partial-first': ["DELETE FROM traits WHERE name = '%s'" % STD_T,
                      "DELETE FROM resource_classes WHERE name = '%s'" % STD_CLASSES[0]],
    'partial-middle': ["DELETE FROM traits WHERE name = '%s'" % _SORTED_TRAITS[len(_SORTED_TRAITS) // 2],
                       "DELETE FROM resource_classes WHERE name = '%s'"
                       % STD_CLASSES[len(STD_CLASSES) // 2]],
    'partial-last': ['DELETE FROM traits WHERE id = (SELECT max(id) FROM traits)',
                     "DELETE FROM resource_classes WHERE name = '%s'" % STD_CLASSES[-1]],
}


def valid(name):
    """The property's rule for names creatable through the API."""
    if len(name) > 255 or not name.startswith('CUSTOM_') or len(name) == len('CUSTOM_'):
        return False
    for ch in name[len('CUSTOM_'):]:
        if ch not in ALLOWED:
            return False
    return True


def label(name):
    if name == NAMES['L']:
        return '<CUSTOM_+248X=255>'
    if name == L256:
        return '<CUSTOM_+249X=256>'
    return name.replace('\n', '\\n')


class XDump(Dump):
    """Dump + the raw (id, name) rows of the two tables (duplicates by name stay visible)."""

    def __init__(self, dbfile):
        Dump.__init__(self, dbfile)
        c = sqlite3.connect('file:%s?mode=ro' % dbfile, uri=True)
        try:
            self.class_rows = sorted(c.execute('select id, name from resource_classes').fetchall())
            self.trait_rows = sorted(c.execute('select id, name from traits').fetchall())
        finally:
            c.close()


def view(d):
    """Abstract state the reference model works on."""
    cnames = [n for _, n in d.class_rows]
    tnames = [n for _, n in d.trait_rows]
    return {
        'ct': frozenset(n for n in tnames if n not in STD_TRAITS),
        'cc': {n: i for i, n in d.class_rows if n not in STD_CLASS_SET},
        'st': frozenset(n for n in tnames if n in STD_TRAITS),
        'sc': {n: i for i, n in d.class_rows if n in STD_CLASS_SET},
        'inv': frozenset(rc if isinstance(rc, str) else repr(rc) for _, rc in d.inventories),
        'rpt': frozenset(t if isinstance(t, str) else repr(t) for _, t in d.rp_traits),
        'dup': (len(cnames) - len(set(cnames)), len(tnames) - len(set(tnames))),
        'prov': tuple(sorted((u, p['name']) for u, p in d.providers.items())),
    }


def state_invariants(d):
    """Invariants of every state (synchronised or not)."""
    v = view(d)
    out = []
    if v['dup'] != (0, 0):
        out.append(('duplicate-name', 'a name occurs in more than one row: %d surplus class rows, '
                    '%d surplus trait rows' % v['dup']))
    for n in sorted(v['ct']):
        if not valid(n):
            out.append(('invalid-trait-name-stored', 'trait row %r is neither a standard trait nor '
                        'CUSTOM_[A-Z0-9_]+ of at most 255 characters' % label(n)))
    ids = [i for i, _ in d.class_rows]
    if len(ids) != len(set(ids)):
        out.append(('class-id-collision', 'two resource classes share an id: %s' % d.class_rows))
    for n, i in sorted(v['cc'].items()):
        if not valid(n):
            out.append(('invalid-class-name-stored', 'class row %r is neither a standard class nor '
                        'CUSTOM_[A-Z0-9_]+ of at most 255 characters' % label(n)))
        if i < MIN_CUSTOM:
            out.append(('custom-class-id-below-10000', 'custom class %s has id %s' % (label(n), i)))
    for n, i in sorted(v['sc'].items()):
        if i != STD_CLASS_ID[n]:
            out.append(('standard-class-wrong-id', 'standard class %s has id %s, its fixed identifier '
                        'is %s' % (n, i, STD_CLASS_ID[n])))
    for x in sorted(v['inv'] | v['rpt']):
        if x.startswith('('):
            out.append(('dangling-reference', 'an inventory / trait association refers to a row that '
                        'does not exist: %s' % x))
    return out


def missing_std(v):
    return (sorted(STD_TRAITS - v['st']), sorted(STD_CLASS_SET - set(v['sc'])))


# ---------------------------------------------------------------------------------------------
# reference model: (acceptable statuses, expected view or None = unchanged)
# ---------------------------------------------------------------------------------------------

def expect(v, op):
    kind = op['op']
    n = op.get('name')
    same = None
    if kind in ('get_traits', 'get_custom_traits', 'get_classes'):
        return {200}, same
    if kind == 'put_trait':
        if not valid(n):
            return {400}, same
        new = dict(v)
        new['ct'] = v['ct'] | {n}
        return ({204} if n in v['ct'] else {201}), new
    if kind == 'del_trait':
        if n in STD_TRAITS:
            return ({400} if n in v['st'] else {400, 404}), same
        if n in v['ct']:
            if n in v['rpt']:
                return {409}, same
            new = dict(v)
            new['ct'] = v['ct'] - {n}
            return {204}, new
        return ({404} if valid(n) else {400, 404}), same
    if kind in ('post_class', 'put_class17'):
        if not valid(n):
            return {400}, same
        if n in v['cc']:
            return ({409} if kind == 'post_class' else {204}), same
        new = dict(v)
        new['cc'] = dict(v['cc'])
        new['cc'][n] = NEW
        return {201}, new
    if kind == 'rename16':
        m = op['to']
        present = n in v['cc'] or n in v['sc']
        if not valid(m):
            return ({400} if present else {400, 404}), same
        if not present:
            return {404}, same
        if n in v['sc']:
            return {400}, same
        if m == n:
            return {200}, same
        if m in v['cc']:
            return {409}, same
        new = dict(v)
        new['cc'] = dict(v['cc'])
        new['cc'][m] = new['cc'].pop(n)
        new['inv'] = frozenset(m if x == n else x for x in v['inv'])
        return {200}, new
    if kind == 'del_class':
        if n in STD_CLASS_SET:
            return ({400} if n in v['sc'] else {400, 404}), same
        if n in v['cc']:
            if n in v['inv']:
                return {409}, same
            new = dict(v)
            new['cc'] = dict(v['cc'])
            del new['cc'][n]
            return {204}, new
        return ({404} if valid(n) else {400, 404}), same
    if kind == 'use_class':
        if n not in v['cc']:
            return {400}, same
        new = dict(v)
        new['inv'] = frozenset([n])
        return {200}, new
    if kind == 'unuse_class':
        new = dict(v)
        new['inv'] = frozenset()
        return {204}, new
    if kind == 'use_trait':
        if n not in v['ct']:
            return {400}, same
        new = dict(v)
        new['rpt'] = frozenset([n])
        return {200}, new
    if kind == 'unuse_trait':
        new = dict(v)
        new['rpt'] = frozenset()
        return {200}, new
    raise ValueError(kind)


class Spec(object):
    def __init__(self, tpool, cpool, kmax, variants):
        self.tpool = [NAMES[k] for k in tpool]
        self.cpool = [NAMES[k] for k in cpool]
        self.kmax = kmax
        self.variants = list(variants)

    # -- pseudo-requests ---------------------------------------------------------------------
    def attach(self, h, worker):
        real_call = worker.call

        def call(req):
            m = req['method']
            if m == 'RESTART':
                run = Run('restart')
                worker.probe.cur = run
                try:
                    h.restart()
                    resp = Resp(200, {}, b'')
                except Exception as e:  # noqa  -- start-up failed: reported by the oracle
                    resp = Resp(599, {}, repr(e).encode()[:400], escaped=e)
                finally:
                    worker.probe.cur = None
                return resp, run
            if m == 'SQL':
                c = sqlite3.connect(h.dbfile)
                try:
                    for s in req['body']:
                        c.execute(s)
                    c.commit()
                finally:
                    c.close()
                return Resp(200, {}, b''), Run('sql')
            return real_call(req)
        worker.call = call
        worker.dump = lambda: XDump(h.dbfile)

    # -- start states -------------------------------------------------------------------------
    def starts(self):
        base = [reqs.mk_rp(1)]
        out = []
        for name in self.variants:
            if name == 'synced':
                out.append((name, list(base)))
            else:
                out.append((name, base + [{'method': 'SQL', 'path': 'unsync:' + name, 'mv': None,
                                           'body': UNSYNC[name], 'tag': 'SQL'}]))
        return out

    def canon(self, d):
        v = view(d)
        mt, mc = missing_std(v)
        key = (sorted(v['ct']), sorted(v['cc'].items()), mt, mc,
               sorted((n, i) for n, i in v['sc'].items() if i != STD_CLASS_ID[n]),
               sorted(v['inv']), sorted(v['rpt']), v['dup'], v['prov'])
        return hashlib.blake2b(repr(key).encode(), digest_size=16).hexdigest()

    # -- alphabet -----------------------------------------------------------------------------
    def alphabet(self, d):
        v = view(d)
        out = [{'method': 'RESTART', 'path': '-', 'mv': None, 'tag': 'RESTART',
                'c19': {'op': 'restart'}}]

        def add(req, **op):
            req['c19'] = op
            out.append(req)

        if self.tpool:
            for n in self.tpool:
                add(R('PUT', '/traits/' + n, tag='PUT /traits/' + label(n)), op='put_trait', name=n)
                add(R('DELETE', '/traits/' + n, tag='DELETE /traits/' + label(n)),
                    op='del_trait', name=n)
            add(R('PUT', '/traits/' + self.tpool[0], mv='1.6',
                  tag='PUT@1.6 /traits/' + label(self.tpool[0])), op='put_trait', name=self.tpool[0])
            add(R('PUT', '/traits/' + STD_T, tag='PUT /traits/<standard>'), op='put_trait', name=STD_T)
            add(R('DELETE', '/traits/' + STD_T, tag='DELETE /traits/<standard>'),
                op='del_trait', name=STD_T)
            for lab, n, tok in BAD:
                alt = {'alt': n.rstrip('\n')} if n != n.rstrip('\n') else {}
                add(R('PUT', '/traits/' + tok, tag='PUT /traits/<%s>' % lab), op='put_trait', name=n,
                    **alt)
                add(R('DELETE', '/traits/' + tok, tag='DELETE /traits/<%s>' % lab),
                    op='del_trait', name=n, **alt)
            add(R('GET', '/traits', tag='GET /traits'), op='get_traits')
            add(R('GET', '/traits', query='name=startswith:CUSTOM_',
                  tag='GET /traits?name=startswith:CUSTOM_'), op='get_custom_traits')
            if NAMES['A'] in self.tpool:
                a = NAMES['A']
                g = d.providers[RP]['gen']
                add(reqs.put_traits(RP, g, [a], tag='PUT provider traits [CUSTOM_A]'),
                    op='use_trait', name=a)
                if v['rpt']:
                    add(reqs.put_traits(RP, g, [], tag='PUT provider traits []'), op='unuse_trait')

        if self.cpool:
            ids = list(v['cc'].values())
            room = (max(ids) if ids else MIN_CUSTOM - 1) + 1 < MIN_CUSTOM + self.kmax
            for n in self.cpool:
                if n in v['cc'] or room:
                    add(R('POST', '/resource_classes', {'name': n},
                          tag='POST /resource_classes ' + label(n)), op='post_class', name=n)
                    add(R('PUT', '/resource_classes/' + n, mv='1.7',
                          tag='PUT@1.7 /resource_classes/' + label(n)), op='put_class17', name=n)
                add(R('DELETE', '/resource_classes/' + n, tag='DELETE /resource_classes/' + label(n)),
                    op='del_class', name=n)
            n0 = self.cpool[0]
            if n0 in v['cc'] or room:
                add(R('POST', '/resource_classes', {'name': n0}, mv='1.2',
                      tag='POST@1.2 /resource_classes ' + label(n0)), op='post_class', name=n0)
                add(R('PUT', '/resource_classes/' + n0, mv='1.39',
                      tag='PUT@1.39 /resource_classes/' + label(n0)), op='put_class17', name=n0)
            add(R('POST', '/resource_classes', {'name': STD_C}, tag='POST /resource_classes <standard>'),
                op='post_class', name=STD_C)
            add(R('PUT', '/resource_classes/' + STD_C, mv='1.7',
                  tag='PUT@1.7 /resource_classes/<standard>'), op='put_class17', name=STD_C)
            add(R('DELETE', '/resource_classes/' + STD_C, tag='DELETE /resource_classes/<standard>'),
                op='del_class', name=STD_C)
            last = STD_CLASSES[-1]
            add(R('DELETE', '/resource_classes/' + last,
                  tag='DELETE /resource_classes/<last standard>'), op='del_class', name=last)
            for lab, n, tok in BAD:
                add(R('POST', '/resource_classes', {'name': n},
                      tag='POST /resource_classes <%s>' % lab), op='post_class', name=n)
                alt = {'alt': n.rstrip('\n')} if n != n.rstrip('\n') else {}
                if not alt or alt['alt'] in v['cc'] or room:    # (may act as a creation)
                    add(R('PUT', '/resource_classes/' + tok, mv='1.7',
                          tag='PUT@1.7 /resource_classes/<%s>' % lab), op='put_class17', name=n,
                        **alt)
                add(R('DELETE', '/resource_classes/' + tok,
                      tag='DELETE /resource_classes/<%s>' % lab), op='del_class', name=n, **alt)
            # renames (microversion 1.6 and below)
            others = [n for n in self.cpool[1:2]] or [NAMES['B']]
            b = others[0]
            pairs = [(n0, b), (b, n0), (n0, n0), (n0, STD_C), (STD_C, n0), (STD_C, STD_C),
                     (last, b), (n0, L256), (n0, NL), (n0, 'custom_a'), (n0, 'CUSTOM_')]
            for src, dst in pairs:
                add(R('PUT', '/resource_classes/' + src, {'name': dst}, mv='1.6',
                      tag='PUT@1.6 rename %s -> %s' % (
                          '<standard>' if src in STD_CLASS_SET else label(src),
                          '<standard>' if dst in STD_CLASS_SET else label(dst))),
                    op='rename16', name=src, to=dst)
            add(R('PUT', '/resource_classes/' + n0, {'name': b}, mv='1.2',
                  tag='PUT@1.2 rename %s -> %s' % (label(n0), label(b))),
                op='rename16', name=n0, to=b)
            add(R('GET', '/resource_classes', tag='GET /resource_classes'), op='get_classes')
            if NAMES['A'] in self.cpool:
                a = NAMES['A']
                g = d.providers[RP]['gen']
                add(reqs.put_invs(RP, g, {a: {'total': 4}}, tag='PUT provider inventories {CUSTOM_A}'),
                    op='use_class', name=a)
                if v['inv']:
                    add(reqs.del_invs(RP, tag='DELETE provider inventories'), op='unuse_class')
        return out

    # -- oracles ------------------------------------------------------------------------------
    def on_state(self, d, h, call):
        return state_invariants(d)

    def on_transition(self, pre, req, resp, run, post):
        op = req.get('c19') or {}
        tag = req.get('tag')
        a, b = view(pre), view(post)
        out = []
        if op.get('op') == 'restart':
            return self._restart(pre, post, a, b, resp)
        first = None
        # a path whose last segment ends in an encoded newline may be rejected, or be read by the
        # router as the name without the newline; what must never happen is a stored name that
        # contains it (state invariant) -- so both readings are admissible, nothing else
        for name in [op.get('name')] + ([op['alt']] if 'alt' in op else []):
            o = dict(op)
            if name is not None:
                o['name'] = name
            out = self._judge(pre, req, resp, run, post, a, b, o, tag)
            if not out:
                return out
            if first is None:
                first = out
        return first

    def _judge(self, pre, req, resp, run, post, a, b, op, tag):
        out = []
        what = ('%s %s%s (version %s)' % (req['method'], req['path'],
                                         ' %r' % (req['body'],) if 'body' in req else '',
                                         req['mv'])).replace('X' * 248, '<248 X>')
        # no API request may add, remove or renumber a standard row
        if a['st'] != b['st'] or a['sc'] != b['sc']:
            out.append(('standard-rows-changed:%s' % tag,
                        '%s answered %s and changed the standard rows: traits -%s +%s, classes %s -> '
                        '%s' % (what, resp.status, sorted(a['st'] - b['st']), sorted(b['st'] - a['st']),
                                sorted(set(a['sc'].items()) - set(b['sc'].items())),
                                sorted(set(b['sc'].items()) - set(a['sc'].items())))))
        statuses, new = expect(a, op)
        if resp.status not in statuses:
            out.append(('status:%s:%s' % (tag, resp.status),
                        '%s answered %s, expected %s; custom classes before: %s, custom traits '
                        'before: %s; body %s' % (what, resp.status, sorted(statuses),
                                                 _lab(a['cc']), sorted(map(label, a['ct'])),
                                                 resp.raw[:200])))
        if resp.status >= 400 or new is None:
            if _cmp(a) != _cmp(b):
                out.append(('rejected-changed:%s' % tag,
                            '%s answered %s but the tables changed: %s -> %s' % (
                                what, resp.status, _cmp(a), _cmp(b))))
            if resp.status >= 400 and run.wrote() and any(
                    t.outcome == 'commit' and t.writes & {'traits', 'resource_classes'}
                    for t in run.txns):
                out.append(('rejected-wrote:%s' % tag, '%s answered %s after committing a write to '
                            'traits/resource_classes' % (what, resp.status)))
        else:
            want = dict(new)
            fresh = [n for n, i in new['cc'].items() if i is NEW]
            if fresh:
                n = fresh[0]
                got = b['cc'].get(n)
                want['cc'] = dict(new['cc'])
                if got is None:
                    out.append(('created-missing:%s' % tag, '%s answered %s but there is no row %s'
                                % (what, resp.status, label(n))))
                    del want['cc'][n]
                else:
                    want['cc'][n] = got
                    before = {i for i, _ in pre.class_rows}
                    if got < MIN_CUSTOM:
                        out.append(('new-class-id-below-10000:%s' % tag,
                                    '%s created %s with id %s' % (what, label(n), got)))
                    if got in before:
                        out.append(('new-class-id-reused-existing:%s' % tag,
                                    '%s created %s with id %s which belonged to %s immediately '
                                    'before' % (what, label(n), got,
                                                [label(x) for i, x in pre.class_rows if i == got])))
            if _cmp(want) != _cmp(b):
                out.append(('effect:%s' % tag, 'after %s (%s) the tables are %s, expected %s' % (
                    what, resp.status, _cmp(b), _cmp(want))))
        # the views agree with the rows
        kind = op.get('op')
        if resp.status == 200 and kind in ('get_traits', 'get_custom_traits', 'get_classes'):
            j = resp.json or {}
            if kind == 'get_classes':
                got = sorted(x.get('name') for x in j.get('resource_classes', []))
                rows = sorted(n for _, n in post.class_rows)
            else:
                got = sorted(j.get('traits', []))
                rows = sorted(n for _, n in post.trait_rows
                              if kind == 'get_traits' or n.startswith('CUSTOM_'))
            if got != rows:
                out.append(('view-differs:%s' % tag, '%s lists %d names, the table has %d: only '
                            'listed %s, only stored %s' % (
                                what, len(got), len(rows),
                                sorted(set(got) - set(rows))[:5], sorted(set(rows) - set(got))[:5])))
        if resp.status in (200, 201, 204) and kind in ('post_class', 'put_class17', 'put_trait'):
            loc = resp.headers.get('Location') or resp.headers.get('location') or ''
            if not loc.endswith('/' + op['name']):
                out.append(('location:%s' % tag, '%s answered %s with Location %r' % (
                    what, resp.status, loc[-60:])))
        return out

    def _restart(self, pre, post, a, b, resp):
        out = []
        if resp.status != 200:
            out.append(('restart-failed', 'start-up synchronisation raised %s (missing before: %s)'
                        % (resp.raw[:300], _short_missing(a))))
        mt, mc = missing_std(b)
        if mt or mc:
            out.append(('std-missing-after-restart',
                        'after start-up synchronisation %d standard traits %s and standard classes '
                        '%s are missing (missing before: %s)' % (len(mt), mt[:4], mc,
                                                                 _short_missing(a))))
        wrong = sorted((n, i) for n, i in b['sc'].items() if i != STD_CLASS_ID[n])
        if wrong:
            out.append(('std-class-wrong-id-after-restart', 'after start-up synchronisation '
                        'standard classes have ids %s, fixed identifiers are %s' % (
                            wrong[:4], [(n, STD_CLASS_ID[n]) for n, _ in wrong[:4]])))
        for k in ('ct', 'cc', 'inv', 'rpt', 'prov', 'dup'):
            if a[k] != b[k]:
                out.append(('restart-changed-custom', 'start-up synchronisation changed %s: %s -> %s'
                            % (k, _one(a[k]), _one(b[k]))))
        if not a['st'] <= b['st'] or any(b['sc'].get(n) != i for n, i in a['sc'].items()):
            out.append(('restart-removed-standard', 'start-up synchronisation removed or renumbered '
                        'standard rows'))
        pm = missing_std(a)
        if not pm[0] and not pm[1]:
            # idempotence: synchronising a synchronised database changes no row at all
            if (pre.class_rows, pre.trait_rows) != (post.class_rows, post.trait_rows) or \
                    pre.core(class_ids=True) != post.core(class_ids=True):
                out.append(('restart-not-idempotent', 'start-up synchronisation of a fully '
                            'synchronised database changed rows'))
        # custom trait ids survive
        pt = {n: i for i, n in pre.trait_rows if n in a['ct']}
        qt = {n: i for i, n in post.trait_rows if n in b['ct']}
        if pt != qt:
            out.append(('restart-changed-custom', 'start-up synchronisation renumbered custom '
                        'traits: %s -> %s' % (pt, qt)))
        return out


def _cmp(v):
    return (sorted(map(label, v['ct'])), _lab(v['cc']), sorted(map(label, v['inv'])),
            sorted(map(label, v['rpt'])), v['dup'], v['prov'])


def _lab(cc):
    return sorted((label(n), i) for n, i in cc.items())


def _one(x):
    if isinstance(x, dict):
        return _lab(x)
    if isinstance(x, frozenset):
        return sorted(map(label, x))
    return x


def _short_missing(v):
    mt, mc = missing_std(v)
    return '%d traits %s, classes %s' % (len(mt), mt[:3], mc[:4] + (['...'] if len(mc) > 4 else []))


# ---------------------------------------------------------------------------------------------

ALL_VARIANTS = ['synced', 'never', 'partial-first', 'partial-middle', 'partial-last']


def configurations(quick):
    if quick:
        return [(['A', 'B', 'L'], [], 0, ALL_VARIANTS),
                ([], ['A', 'B', 'L'], 3, ALL_VARIANTS),
                (['A'], ['A', 'B'], 3, ['synced', 'never', 'partial-last'])]
    return [(['A', 'B', 'L'], ['A', 'B', 'L'], 4, ALL_VARIANTS)]


def run(ctx):
    ctx.budget = ctx.budget or (110 if ctx.quick else 1150)
    configs = configurations(ctx.quick)
    total = None
    per = []
    for args in configs:
        st = explore_seq.explore(ctx, 'vp.props.c19', 'Spec', args, max_depth=200)
        per.append({'traits': args[0], 'classes': args[1], 'class_id_window': args[2],
                    'states': st['states'], 'transitions': st['transitions'],
                    'fixpoint': st['fixpoint'], 'depth_completed': st['depth_completed']})
        if total is None:
            total = st
        else:
            for k in ('states', 'transitions', 'state_changing_transitions',
                      'rejected_transitions', 'determinism_reruns'):
                total[k] += st[k]
            total['fixpoint'] = total['fixpoint'] and st['fixpoint']
            total['depth_completed'] = max(total['depth_completed'], st['depth_completed'])
            for t, c in st['outcomes'].items():
                dst = total['outcomes'].setdefault(t, {})
                for s, n in c.items():
                    dst[s] = dst.get(s, 0) + n
        if ctx.violations or ctx.out_of_time():
            break
    total['never_collided'] = sorted(t for t, c in total['outcomes'].items() if len(c) == 1)
    total['samples'] = total['samples'] or [
        {'alphabet_entry': t, 'statuses_observed': total['outcomes'][t]}
        for t in ('RESTART', 'POST /resource_classes CUSTOM_A', 'PUT@1.6 rename CUSTOM_A -> CUSTOM_B',
                  'DELETE /resource_classes/<standard>', 'PUT /traits/<256>',
                  'DELETE /traits/CUSTOM_A', 'PUT@1.7 /resource_classes/<newline>')
        if t in total['outcomes']] + [
        {'start_state': n, 'setup': [explore_seq._short(r) for r in s]}
        for n, s in Spec(*configs[0]).starts()[1:3]]
    fill(ctx, total,
         'BFS to a fixpoint over the real service; state = rows of traits and resource_classes '
         '(names and class ids), standard rows missing / misnumbered, usage of CUSTOM_A by one '
         'provider; alphabet in every state: the restart event (start-up synchronisation), PUT/DELETE '
         '/traits/{n}, POST /resource_classes, PUT /resource_classes/{n} at 1.7/1.39 (create) and '
         '1.2/1.6 (rename), DELETE /resource_classes/{n}, list views, for valid, standard and seven '
         'invalid names (lower case, no prefix, prefix only, bad characters, 256 characters, '
         'trailing newline), plus creation/removal of usage; start databases: synchronised, never '
         'synchronised, first/middle/last standard class and a standard trait removed by raw SQL; '
         'oracle: reference model of the two tables from the property and the api-ref')
    ctx.coverage['configurations'] = per
    ctx.coverage['exhaustive'] = bool(total['fixpoint'])
    ctx.coverage['standard_traits'] = len(STD_TRAITS)
    ctx.coverage['standard_classes'] = len(STD_CLASSES)
    dropped = {t: c for t, c in total['outcomes'].items()
               if '<newline>' in t and not t.startswith('POST') and
               any(int(x) < 400 for x in c)}
    ctx.coverage['notes'] = []
    if dropped:
        ctx.coverage['notes'].append(
            'a path ending in an encoded newline (/traits/CUSTOM_A%%0A, /resource_classes/'
            'CUSTOM_A%%0A) is not rejected: the router (Routes, pattern [^/]+?$) drops the newline '
            'and the request acts on CUSTOM_A; no stored name ever contains the newline, so the '
            'property holds and this is admitted as the second reading of the request: %s'
            % {t: dropped[t] for t in sorted(dropped)})
    ctx.assumptions[:] = [a for a in ctx.assumptions if not a.startswith('depth-bounded')]
    ctx.assumptions += [
        'resource-class ids are part of the state, which makes the space infinite; creation of a '
        'new class is enabled only while max(custom id)+1 < 10000+K (K = class_id_window per '
        'configuration); inside that window the search is a fixpoint over histories of any length',
        'name pools: CUSTOM_A, CUSTOM_B and the 255-character name; one provider, usage only of '
        'CUSTOM_A (moved to CUSTOM_B by a rename)',
        'partially synchronised start databases are produced with raw SQL on the SQLite file '
        '(pseudo-request SQL); the restart event is Harness.restart() = reset both _SYNCED flags + '
        'deploy.update_database(conf) (pseudo-request RESTART)',
        'API requests are also explored on the not yet synchronised databases (a process with an '
        'older library may serve them); INV-std is demanded of every state reached by a restart',
        'os-traits %d symbols, os-resource-classes %d standard classes as installed in /venv'
        % (len(STD_TRAITS), len(STD_CLASSES)),
    ]
    if not total['fixpoint']:
        ctx.cap('no fixpoint within budget')
    if not ctx.new_violations():
        fault_part(ctx)


FAULT_ENTRIES = ('restart on a fully synchronised database',
                 'restart on a partially synchronised database',
                 'restart on a never synchronised database', 'POST resource class',
                 'PUT resource class (1.7)', 'PUT resource class rename (1.6)',
                 'DELETE resource class', 'PUT trait', 'DELETE trait')


def fault_part(ctx):
    """E-fault on the operations that touch the two tables: every single database fault at every
    statement of the three start-up synchronisations and of the class / trait writes. After a
    failed synchronisation the next one -- in the same process and in a new one -- must restore
    every standard name with its fixed id; a failed write leaves no row behind."""
    from vp import faults
    from vp.boot import make_base_image
    from vp.workers import Pool
    corpus = [e for e in faults.corpus() if e['name'] in FAULT_ENTRIES]
    base = make_base_image()
    pool = Pool(ctx.workers, 'vp.faults', 'make_worker', (base,))
    runs = fired = 0
    outcomes = {}
    try:
        bl = list(pool.map([('baseline', e) for e in corpus]))
        tasks = [('fault', e, [(k, kind)]) for e, b in zip(corpus, bl)
                 for k in range(b['nstmts']) for kind in faults.FAULT_KINDS]
        for t, res in zip(tasks, pool.map(tasks, chunksize=8)):
            if res['outcome'] == 'not-applicable':
                continue
            runs += 1
            fired += bool(res['fired'])
            outcomes[res['outcome']] = outcomes.get(res['outcome'], 0) + 1
            for sig, msg in res['viol']:
                ctx.violation('c19-fault:' + sig, msg,
                              {'engine': 'fault', 'entry': t[1], 'faults': t[2]})
    finally:
        pool.close()
    ctx.coverage['fault_part'] = {
        'entries': [e['name'] for e in corpus], 'fault_kinds': list(faults.FAULT_KINDS),
        'fault_runs': runs, 'runs_where_the_fault_fired': fired, 'outcomes': outcomes,
        'rule': 'every statement index x every fault kind, one fault per run; after a failed '
                'start-up synchronisation the synchronisation is run again in the same process '
                'and then in a new one'}


def replay(ctx, data):
    if data.get('engine') == 'fault':
        from vp import faults
        from vp.boot import make_base_image
        w = faults.FaultWorker(make_base_image())
        res = faults.judge_fault(w, data['entry'], [tuple(f) for f in data['faults']])
        for sig, msg in res['viol']:
            if 'c19-fault:' + sig == data['signature']:
                return False, 'reproduced: %s' % msg
        return True, 'outcome %s; signatures %s' % (res['outcome'], [v[0] for v in res['viol']])
    return explore_seq.replay(ctx, data)
