"""C09 -- the provider hierarchy is always a forest with correct root pointers.

E-seq to a fixpoint: the state space (labelled rooted forests over subsets of a pool of n
providers, plus one name bit for P1) is closed under the alphabet, so the search covers histories
of every length over that pool.
"""
from vp import explore_seq
from vp.http import R
from vp.names import P, UNKNOWN_UUID, pname
from vp.snapshot import inv_forest

ALT_NAME = 'rp-alt'


def PU(i):
    """Pool uuids of the sequential part contain hex LETTERS, so that the same uuid also has an
    upper-case spelling (which the body schema accepts and which names no provider)."""
    return 'abcdef00-0000-4000-8000-%012d' % i


class Spec(object):
    def __init__(self, n):
        self.n = n
        self.pool = [PU(i) for i in range(1, n + 1)]
        self.idx = {PU(i): i for i in range(1, n + 1)}

    def starts(self):
        return [('empty', [])]

    def canon(self, d):
        return repr(sorted((u, p['name'], repr(p['parent']), repr(p['root']))
                           for u, p in d.providers.items()))

    # -- alphabet ------------------------------------------------------------------------
    def alphabet(self, d):
        out = []
        exist = sorted(d.providers)
        for x in self.pool:
            i = self.idx[x]
            if x not in d.providers:
                nm = pname(i)
                out.append(R('POST', '/resource_providers', {'name': nm, 'uuid': x}, mv='1.13',
                             tag='POST@1.13'))
                out.append(R('POST', '/resource_providers',
                             {'name': nm, 'uuid': x, 'parent_provider_uuid': exist[0] if exist
                              else UNKNOWN_UUID}, mv='1.13', tag='POST-parent@1.13'))
                for mv in ('1.14', '1.37'):
                    out.append(R('POST', '/resource_providers', {'name': nm, 'uuid': x}, mv=mv,
                                 tag='POST-root@' + mv))
                    for par in exist + [x, UNKNOWN_UUID]:
                        kind = 'self' if par == x else 'unknown' if par == UNKNOWN_UUID else 'ok'
                        out.append(R('POST', '/resource_providers',
                                     {'name': nm, 'uuid': x, 'parent_provider_uuid': par}, mv=mv,
                                     tag='POST-parent-%s@%s' % (kind, mv)))
                out.append(R('DELETE', '/resource_providers/' + x, tag='DELETE-missing'))
                out.append(R('PUT', '/resource_providers/' + x, {'name': nm}, mv='1.37',
                             tag='PUT-missing'))
            else:
                nm = d.providers[x]['name']
                out.append(R('PUT', '/resource_providers/' + x, {'name': nm}, mv='1.13',
                             tag='PUT-name@1.13'))
                for mv in ('1.14', '1.37'):
                    out.append(R('PUT', '/resource_providers/' + x, {'name': nm}, mv=mv,
                                 tag='PUT-noparent@' + mv))
                    out.append(R('PUT', '/resource_providers/' + x,
                                 {'name': nm, 'parent_provider_uuid': None}, mv=mv,
                                 tag='PUT-null@' + mv))
                    for par in exist + [UNKNOWN_UUID]:
                        out.append(R('PUT', '/resource_providers/' + x,
                                     {'name': nm, 'parent_provider_uuid': par}, mv=mv,
                                     tag='PUT-parent@' + mv))
                # the same uuids spelled in upper case: however the look-up treats them, the
                # loop and existence checks must see what the look-up saw
                kids = [u for u in exist if d.providers[u]['parent'] == x]
                for par, kind in [(x, 'self')] + [(k, 'child') for k in kids[:1]]:
                    out.append(R('PUT', '/resource_providers/' + x,
                                 {'name': nm, 'parent_provider_uuid': par.upper()}, mv='1.37',
                                 tag='PUT-parent-uppercase-%s@1.37' % kind))
                if i == 1:
                    for new in (pname(1), ALT_NAME, pname(2)):
                        if new != nm:
                            out.append(R('PUT', '/resource_providers/' + x, {'name': new},
                                         mv='1.14', tag='PUT-rename'))
                out.append(R('DELETE', '/resource_providers/' + x, tag='DELETE'))
        return out

    # -- reference semantics of the forest -------------------------------------------------
    def expect(self, d, req):
        """-> (set of acceptable statuses, expected {uuid: (name, parent)} or None = unchanged)"""
        cur = {u: (p['name'], p['parent']) for u, p in d.providers.items()}
        names = {p['name']: u for u, p in d.providers.items()}
        mv = tuple(int(x) for x in req['mv'].split('.'))
        body = req.get('body') or {}
        if req['method'] == 'POST':
            x = body['uuid']
            if 'parent_provider_uuid' in body and mv < (1, 14):
                return {400}, None
            par = body.get('parent_provider_uuid')
            if par is not None and (par == x or par not in cur):
                return {400}, None
            if body['name'] in names or x in cur:
                return {409}, None
            new = dict(cur)
            new[x] = (body['name'], par)
            return {200 if mv >= (1, 20) else 201}, new
        x = req['path'].rsplit('/', 1)[1]
        if x not in cur:
            return {404}, None
        if req['method'] == 'DELETE':
            if any(p == x for _, p in cur.values()):
                return {409}, None
            new = dict(cur)
            del new[x]
            return {204}, new
        # PUT
        name, parent = cur[x]
        newparent = parent
        if 'parent_provider_uuid' in body:
            par = body['parent_provider_uuid']
            if par is None:
                if parent is not None:
                    if mv < (1, 37):
                        return {400}, None
                    newparent = None
            else:
                if par not in cur:
                    return {400}, None
                if parent is not None and parent != par and mv < (1, 37):
                    return {400}, None
                # loop: par inside the subtree of x
                sub = {x}
                grew = True
                while grew:
                    grew = False
                    for u, (_, pp) in cur.items():
                        if pp in sub and u not in sub:
                            sub.add(u)
                            grew = True
                if par in sub:
                    return {400}, None
                newparent = par
        if body['name'] != name and body['name'] in names:
            return {409}, None
        new = dict(cur)
        new[x] = (body['name'], newparent)
        return {200}, new

    # -- oracles ---------------------------------------------------------------------------
    def on_transition(self, pre, req, resp, run, post):
        v = []
        tag = req.get('tag')
        for m in inv_forest(post):
            v.append(('forest:%s' % tag, 'after %s %s: %s' % (req['method'], req['path'], m)))
        statuses, new = self.expect(pre, req)
        if resp.status not in statuses:
            v.append(('status:%s:%s' % (tag, resp.status),
                      '%s %s %s (mv %s) answered %s, expected %s' % (
                          req['method'], req['path'], req.get('body'), req['mv'], resp.status,
                          sorted(statuses))))
        if resp.status >= 400 or new is None:
            if post.core() != pre.core():
                v.append(('rejected-changed:%s' % tag,
                          'rejected/ineffective request %s %s %s changed state' % (
                              req['method'], req['path'], req.get('body'))))
        if new is not None and resp.status < 400:
            got = {u: (p['name'], p['parent']) for u, p in post.providers.items()}
            if got != new:
                v.append(('effect:%s' % tag, 'after %s %s %s parents/names are %s, expected %s' % (
                    req['method'], req['path'], req.get('body'), got, new)))
            if resp.json is not None and mv_ge(req, (1, 14)) and req['method'] != 'DELETE':
                x = resp.json.get('uuid')
                if x in post.providers:
                    top = post.top_of(x)
                    if resp.json.get('root_provider_uuid') != top or \
                            resp.json.get('parent_provider_uuid') != post.providers[x]['parent']:
                        v.append(('response-root:%s' % tag,
                                  'response reports root %s parent %s; rows say top=%s parent=%s'
                                  % (resp.json.get('root_provider_uuid'),
                                     resp.json.get('parent_provider_uuid'), top,
                                     post.providers[x]['parent'])))
        return v

    def on_state(self, d, h, call):
        v = []
        for m in inv_forest(d):
            v.append(('forest-state', m))
        for x in d.providers:
            resp, _ = call(R('GET', '/resource_providers/' + x))
            top = d.top_of(x)
            if resp.status != 200 or resp.json.get('root_provider_uuid') != top or \
                    resp.json.get('parent_provider_uuid') != d.providers[x]['parent']:
                v.append(('api-root', 'GET provider %s reports parent=%s root=%s; parent chain '
                          'says parent=%s top=%s' % (
                              x, resp.json and resp.json.get('parent_provider_uuid'),
                              resp.json and resp.json.get('root_provider_uuid'),
                              d.providers[x]['parent'], top)))
            resp, _ = call(R('GET', '/resource_providers', query='in_tree=' + x))
            got = {p['uuid'] for p in (resp.json or {}).get('resource_providers', [])}
            if resp.status != 200 or got != d.tree_of(x):
                v.append(('api-in_tree', '?in_tree=%s lists %s, tree by parent links is %s' % (
                    x, sorted(got), sorted(d.tree_of(x)))))
        return v


def mv_ge(req, v):
    return tuple(int(x) for x in req['mv'].split('.')) >= v


def conc_scenarios():
    """Hierarchy-changing requests racing each other."""
    from vp import reqs
    base = [reqs.mk_rp(1), reqs.mk_rp(2), reqs.mk_rp(3, parent=P(2))]

    def put(x, parent, mv='1.37', nm=None):
        return R('PUT', '/resource_providers/' + P(x), {'name': nm or pname(x),
                                                         'parent_provider_uuid': parent}, mv=mv)
    pairs = [
        ('DELETE P1 || POST child under P1', reqs.del_rp(P(1)), reqs.mk_rp(4, parent=P(1))),
        ('DELETE P1 || PUT P2 under P1', reqs.del_rp(P(1)), put(2, P(1))),
        ('PUT P1 under P3 || PUT P2 under P1', put(1, P(3)), put(2, P(1))),
        ('PUT P1 under P2 || PUT P2 under P1', put(1, P(2)), put(2, P(1))),
        ('PUT P3 to top || DELETE P2', put(3, None), reqs.del_rp(P(2))),
        ('PUT P2 under P1 || POST child under P3', put(2, P(1)), reqs.mk_rp(4, parent=P(3))),
        ('PUT P2 under P1 @1.14 || PUT P1 under P3 @1.14', put(2, P(1), '1.14'),
         put(1, P(3), '1.14')),
    ]
    # two moves of the same provider (P1, P4 top-level; P3 child of P2): whichever write lands
    # last, parent and root of every provider must agree afterwards
    base4 = base + [reqs.mk_rp(4)]
    pairs4 = [
        ('PUT P1 under P4 || PUT P1 under P3', put(1, P(4)), put(1, P(3))),
        ('PUT P1 under P4 || PUT P1 under P3 @1.14', put(1, P(4)), put(1, P(3), '1.14')),
        ('PUT P2 under P1 || PUT P2 under P4', put(2, P(1)), put(2, P(4))),
        ('PUT P3 to top || PUT P3 under P1', put(3, None), put(3, P(1))),
        ('PUT P3 under P4 || PUT P2 under P1', put(3, P(4)), put(2, P(1))),
    ]
    out = []
    for setup, prs in ((base, pairs), (base4, pairs4)):
        for name, a, b in prs:
            a, b = dict(a), dict(b)
            a['tag'], b['tag'] = name.split(' || ')
            out.append({'name': name, 'setup': setup, 'requests': [a, b], 'bound': None,
                        'max_exec': 4000})
    return out


def run(ctx):
    n = 4 if ctx.quick else 5
    ctx.budget = ctx.budget or (240 if ctx.quick else 1500)
    st = explore_seq.explore(ctx, 'vp.props.c09', 'Spec', (n,), max_depth=64)
    # second part: the hierarchy under concurrent requests, with and without foreign keys (SQLite
    # does not enforce them unless asked to; MySQL/PostgreSQL do)
    from vp import explore_conc
    sc = conc_scenarios()
    conc = {}
    for fk in (True, False):
        tot = explore_conc.run_scenarios(ctx, 'C09', sc, fk=fk)
        conc['foreign_keys_%s' % ('on' if fk else 'off')] = {
            'scenarios': tot['scenarios'], 'states': tot['states'],
            'transitions': tot['transitions'], 'schedules_executed': tot['executions'],
            'outcome_vectors': tot['outcome_vectors']}
        st['states'] += tot['states']
        st['transitions'] += tot['transitions']
    ctx.level = 'model_checking'
    ctx.coverage['concurrent_part'] = conc
    ctx.coverage.update({
        'states': st['states'], 'transitions': st['transitions'],
        'traces_validated_against_impl': st['transitions'],
        'samples': st['samples'] or [['(all states reached at depth < max)']],
        'pool_size': n, 'fixpoint': st['fixpoint'], 'depth_completed': st['depth_completed'],
        'exhaustive': bool(st['fixpoint']),
        'state_changing_transitions': st['state_changing_transitions'],
        'rejected_transitions': st['rejected_transitions'],
        'outcomes_per_alphabet_entry': st['outcomes'],
        'never_collided': st['never_collided'],
        'determinism_reruns': st['determinism_reruns'],
        'rule': 'BFS over the real service; a state is the set of provider rows (uuid, name, '
                'parent, root); every transition is one HTTP request executed on a restored '
                'database image and compared with a reference forest semantics',
    })
    ctx.assumptions += [
        'pool of %d providers (the quantifier names up to 8); fixpoint covers all histories over '
        'this pool' % n,
        'SQLite with foreign keys enforced stands in for the DBMS']
    if not st['fixpoint']:
        ctx.cap('no fixpoint within budget')


def replay(ctx, data):
    if data.get('engine') == 'conc':
        from vp import explore_conc
        return explore_conc.replay(ctx, data)
    return explore_seq.replay(ctx, data)
