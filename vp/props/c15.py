"""C15 -- arbitrary input yields well-formed client errors, never a server error.

E-enum over a *mutation grammar*: a corpus of valid requests (one per route x method x body
format) is mutated at EVERY position of path, query, headers and body by a fixed, finite set
of operators; depth 1 = every single mutation, depth 2 = every pair of mutations inside one
request part.  Every mutated request is executed through the real WSGI pipeline on a restored
database image (three states) and judged by an oracle written from the property statement,
api-ref/source/errors.inc and the 1.23 entry of rest_api_version_history.rst:

  * the WSGI call returns (no escaped exception), the response is well formed;
  * status < 500;
  * a 4xx whose client asked for JSON carries `application/json` and errors[0] has status,
    title, detail, request_id and -- when the negotiated microversion is >= 1.23 -- code
    (401 is exempted: errors.inc says it is produced by other code);
  * 400 / 404 / 405 / 406 / 415 leave the database dump unchanged.

The request builder below creates the WSGI environ itself (byte-exact path, query, headers,
content-length and body) because the mutations include things a friendly client library
refuses to send.
"""
import io
import json
import re
from urllib.parse import quote, unquote_to_bytes

import webob

from vp import http
from vp.enum import EnumWorker, run_cases
from vp.names import A, K, P, UNKNOWN_UUID
from vp.probe import Run
from vp.snapshot import diff

MALFORMED = (400, 404, 405, 406, 415)
SHARING = 'MISC_SHARES_VIA_AGGREGATE'
LATEST = (1, 39)

# =========================================================================================
# 1. States
# =========================================================================================

INV_FULL = {'total': 16, 'reserved': 1, 'min_unit': 1, 'max_unit': 16, 'step_size': 1,
            'allocation_ratio': 2.0}


def _rp(i, name, parent=None):
    b = {'name': name, 'uuid': P(i)}
    if parent:
        b['parent_provider_uuid'] = P(parent)
    return S('POST', '/resource_providers', b)


def _inv(i, gen, **classes):
    return S('PUT', '/resource_providers/%s/inventories' % P(i),
             {'resource_provider_generation': gen,
              'inventories': {rc: (v if isinstance(v, dict) else {'total': v})
                              for rc, v in classes.items()}})


def _traits(i, gen, *traits):
    return S('PUT', '/resource_providers/%s/traits' % P(i),
             {'resource_provider_generation': gen, 'traits': list(traits)})


def _aggs(i, gen, *aggs):
    return S('PUT', '/resource_providers/%s/aggregates' % P(i),
             {'resource_provider_generation': gen, 'aggregates': list(aggs)})


def _alloc(k, allocs, project, user, ctype):
    return S('PUT', '/allocations/%s' % K(k),
             {'allocations': {P(i): {'resources': res} for i, res in allocs.items()},
              'consumer_generation': None, 'project_id': project, 'user_id': user,
              'consumer_type': ctype})


def S(method, path, body=None, mv='1.39'):
    """A plain valid request (used for state construction)."""
    return make_req(method, path, None, std_headers(mv, body is not None),
                    None if body is None else json.dumps(body).encode())


COMMON_SETUP = [
    ('PUT', '/resource_classes/CUSTOM_GOLD'), ('PUT', '/resource_classes/CUSTOM_UNUSED'),
    ('PUT', '/traits/CUSTOM_FAST'), ('PUT', '/traits/CUSTOM_UNUSED'),
]


def state_requests(name):
    """Setup requests of a named state.  Conventions shared by the populated states so that the
    same corpus is valid in both: P1 = main provider (generation 3, VCPU/MEMORY_MB/CUSTOM_GOLD,
    traits HW_CPU_X86_AVX + CUSTOM_FAST, aggregates A1 A2); P4 = root provider 'rp4' without
    allocations, generation 1, VCPU inventory; P8 = bare leaf 'rp8' (deletable); K1, K2 =
    consumers of generation 1."""
    if name == 'empty':
        return []
    reqs = [S(m, p) for m, p in COMMON_SETUP]
    if name == 'flat':
        reqs += [
            _rp(1, 'rp1'), _rp(2, 'rp2'), _rp(3, 'rp3'), _rp(4, 'rp4'), _rp(8, 'rp8'),
            _inv(1, 0, VCPU=INV_FULL, MEMORY_MB=32768, CUSTOM_GOLD=4),
            _traits(1, 1, 'HW_CPU_X86_AVX', 'CUSTOM_FAST'),
            _aggs(1, 2, A(1), A(2)),
            _inv(2, 0, VCPU=8, MEMORY_MB=16384), _aggs(2, 1, A(1)),
            _inv(3, 0, DISK_GB=1000), _traits(3, 1, SHARING), _aggs(3, 2, A(1)),
            _inv(4, 0, VCPU=4),
            _alloc(1, {1: {'VCPU': 2, 'MEMORY_MB': 1024}, 3: {'DISK_GB': 10}},
                   'proj1', 'user1', 'INSTANCE'),
            _alloc(2, {2: {'VCPU': 1}}, 'proj2', 'user2', 'MIGRATION'),
        ]
    elif name == 'nested':
        # tree 1: rp1 (compute) > rp2 (numa0) > rp5 (pf), rp1 > rp3 (numa1)
        # tree 2: rp6 (storage head) > rp7 = *nested sharing provider*: a child carrying
        #         MISC_SHARES_VIA_AGGREGATE whose aggregate A1 is shared with tree 1
        reqs += [
            _rp(1, 'rp1'), _rp(2, 'rp2', 1), _rp(3, 'rp3', 1), _rp(5, 'rp5', 2),
            _rp(6, 'rp6'), _rp(7, 'rp7', 6), _rp(4, 'rp4'), _rp(8, 'rp8', 4),
            _inv(1, 0, VCPU=INV_FULL, MEMORY_MB=32768, CUSTOM_GOLD=4),
            _traits(1, 1, 'HW_CPU_X86_AVX', 'CUSTOM_FAST'),
            _aggs(1, 2, A(1), A(2)),
            _inv(2, 0, VCPU=8, MEMORY_MB=16384), _traits(2, 1, 'HW_NUMA_ROOT'),
            _inv(3, 0, VCPU=8, MEMORY_MB=16384), _traits(3, 1, 'HW_NUMA_ROOT'),
            _inv(5, 0, SRIOV_NET_VF=8), _traits(5, 1, 'CUSTOM_FAST'),
            _inv(7, 0, DISK_GB=1000), _traits(7, 1, SHARING), _aggs(7, 2, A(1)),
            _aggs(6, 0, A(3)),
            _inv(4, 0, VCPU=4),
            _alloc(1, {1: {'VCPU': 2, 'MEMORY_MB': 1024}, 2: {'VCPU': 1},
                       5: {'SRIOV_NET_VF': 1}, 7: {'DISK_GB': 10}},
                   'proj1', 'user1', 'INSTANCE'),
            _alloc(2, {3: {'VCPU': 1, 'MEMORY_MB': 512}}, 'proj2', 'user2', 'MIGRATION'),
        ]
    else:
        raise ValueError(name)
    return reqs


STATES = ('empty', 'flat', 'nested')

# =========================================================================================
# 2. Request representation and WSGI call
# =========================================================================================
# A request is a JSON-serialisable dict:
#   method, path (raw, percent-encoded request-target path), query (raw string or None),
#   headers [[name, value], ...] (all of them, incl. credentials), body (latin-1 str of the
#   body bytes, or None), clen (explicit Content-Length header text, or absent = len(body)).


def std_headers(mv, has_body, accept='application/json'):
    h = [['X-Auth-Token', 'admin'], ['X-Roles', 'admin,service']]
    if mv is not None:
        h.append(['OpenStack-API-Version', 'placement %s' % mv])
    if accept is not None:
        h.append(['Accept', accept])
    if has_body:
        h.append(['Content-Type', 'application/json'])
    return h


def make_req(method, path, query, headers, body, clen=None):
    r = {'method': method, 'path': path, 'query': query, 'headers': headers,
         'body': None if body is None else body.decode('latin-1')}
    if clen is not None:
        r['clen'] = clen
    return r


def environ_of(req):
    env = webob.Request.blank('/').environ
    env['REQUEST_METHOD'] = req['method']
    env['REMOTE_ADDR'] = '127.0.0.1'
    # what a WSGI server does: percent-decode the path, hand the bytes over as latin-1
    env['PATH_INFO'] = unquote_to_bytes(req['path']).decode('latin-1')
    env['QUERY_STRING'] = req.get('query') or ''
    body = req.get('body')
    raw = b'' if body is None else body.encode('latin-1')
    env['wsgi.input'] = io.BytesIO(raw)
    if 'clen' in req:
        env['CONTENT_LENGTH'] = req['clen']
    elif body is not None:
        env['CONTENT_LENGTH'] = str(len(raw))
    else:
        env.pop('CONTENT_LENGTH', None)
    env.pop('CONTENT_TYPE', None)
    for name, value in req['headers']:
        key = name.upper().replace('-', '_')
        if key == 'CONTENT_TYPE':
            env['CONTENT_TYPE'] = value
        else:
            env['HTTP_' + key] = value
    return env


def wsgi_call(app, req):
    """-> vp.http.Resp; status 599 = an exception escaped the whole pipeline (or the
    application broke the WSGI protocol)."""
    env = environ_of(req)
    try:
        resp = webob.Request(env).get_response(app)
        return http.Resp(resp.status_int, dict(resp.headers), resp.body)
    except Exception as e:  # noqa
        return http.Resp(599, {}, repr(e).encode()[:2000], escaped=e)


# =========================================================================================
# 3. Base corpus
# =========================================================================================

INV_BODY = {'total': 8, 'reserved': 0, 'min_unit': 1, 'max_unit': 8, 'step_size': 1,
            'allocation_ratio': 1.5}


def corpus():
    """One valid request per (route, method) and per body / query format.
    Entry: dict(id, method, route, args (values of the {placeholders}), query [(k, v)...],
    body, mv).  Valid (2xx) in the two populated states; in the empty state the ones that
    name existing objects are legitimately 404 and their mutations are still judged."""
    out = []

    def B(id_, method, route, args=(), query=None, body=None, mv='1.39'):
        out.append({'id': id_, 'method': method, 'route': route, 'args': list(args),
                    'query': [list(x) for x in (query or [])], 'body': body, 'mv': mv})

    rp = '/resource_providers/{uuid}'
    # -- root
    B('root', 'GET', '/')
    # -- resource classes
    B('rc-list', 'GET', '/resource_classes')
    B('rc-post', 'POST', '/resource_classes', body={'name': 'CUSTOM_NEW'})
    B('rc-get', 'GET', '/resource_classes/{name}', ['CUSTOM_GOLD'])
    B('rc-put', 'PUT', '/resource_classes/{name}', ['CUSTOM_NEW'])
    B('rc-put@1.6', 'PUT', '/resource_classes/{name}', ['CUSTOM_UNUSED'],
      body={'name': 'CUSTOM_RENAMED'}, mv='1.6')
    B('rc-delete', 'DELETE', '/resource_classes/{name}', ['CUSTOM_UNUSED'])
    # -- resource providers
    B('rp-list', 'GET', '/resource_providers')
    B('rp-list-all', 'GET', '/resource_providers', query=[
        ('name', 'rp1'), ('uuid', P(1)), ('member_of', 'in:%s,%s' % (A(1), A(2))),
        ('member_of', '!' + A(9)), ('resources', 'VCPU:1,MEMORY_MB:512'),
        ('in_tree', P(1)), ('required', 'HW_CPU_X86_AVX,!CUSTOM_UNUSED'),
        ('required', 'in:CUSTOM_FAST,HW_CPU_X86_SSE')])
    B('rp-list-name', 'GET', '/resource_providers', query=[('name', 'rp1')])
    B('rp-list-uuid', 'GET', '/resource_providers', query=[('uuid', P(1))])
    B('rp-list-member_of', 'GET', '/resource_providers',
      query=[('member_of', 'in:%s,%s' % (A(1), A(2)))])
    B('rp-list-member_of@1.3', 'GET', '/resource_providers',
      query=[('member_of', A(1))], mv='1.3')
    B('rp-list-resources', 'GET', '/resource_providers',
      query=[('resources', 'VCPU:1,MEMORY_MB:512')])
    B('rp-list-in_tree', 'GET', '/resource_providers', query=[('in_tree', P(1))])
    B('rp-list-required', 'GET', '/resource_providers',
      query=[('required', 'HW_CPU_X86_AVX,!CUSTOM_UNUSED')])
    B('rp-list-required@1.18', 'GET', '/resource_providers',
      query=[('required', 'HW_CPU_X86_AVX')], mv='1.18')
    B('rp-post', 'POST', '/resource_providers',
      body={'name': 'rp-new', 'uuid': P(20), 'parent_provider_uuid': P(4)})
    B('rp-post@1.0', 'POST', '/resource_providers', body={'name': 'rp-new'}, mv='1.0')
    B('rp-get', 'GET', rp, [P(1)])
    B('rp-delete', 'DELETE', rp, [P(8)])
    B('rp-put', 'PUT', rp, [P(8)], body={'name': 'rp8-renamed', 'parent_provider_uuid': P(4)})
    B('rp-put@1.0', 'PUT', rp, [P(8)], body={'name': 'rp8-renamed'}, mv='1.0')
    # -- inventories
    B('inv-list', 'GET', rp + '/inventories', [P(1)])
    B('inv-post', 'POST', rp + '/inventories', [P(4)],
      body=dict(INV_BODY, resource_class='CUSTOM_GOLD'))
    B('inv-put-all', 'PUT', rp + '/inventories', [P(4)],
      body={'resource_provider_generation': 1,
            'inventories': {'VCPU': dict(INV_BODY), 'CUSTOM_GOLD': {'total': 2}}})
    B('inv-delete-all', 'DELETE', rp + '/inventories', [P(4)])
    B('inv-get', 'GET', rp + '/inventories/{resource_class}', [P(1), 'CUSTOM_GOLD'])
    B('inv-put', 'PUT', rp + '/inventories/{resource_class}', [P(4), 'VCPU'],
      body=dict(INV_BODY, resource_provider_generation=1))
    B('inv-delete', 'DELETE', rp + '/inventories/{resource_class}', [P(4), 'VCPU'])
    # -- usages, aggregates, provider allocations
    B('rp-usages', 'GET', rp + '/usages', [P(1)])
    B('agg-get', 'GET', rp + '/aggregates', [P(1)])
    B('agg-put', 'PUT', rp + '/aggregates', [P(4)],
      body={'aggregates': [A(1), A(4)], 'resource_provider_generation': 1})
    B('agg-put@1.1', 'PUT', rp + '/aggregates', [P(4)], body=[A(1), A(4)], mv='1.1')
    B('rp-allocs', 'GET', rp + '/allocations', [P(1)])
    # -- allocations
    alloc_dict = {P(1): {'resources': {'VCPU': 1, 'MEMORY_MB': 256}},
                  P(4): {'resources': {'VCPU': 1}}}
    B('alloc-post', 'POST', '/allocations', body={
        K(1): {'allocations': alloc_dict, 'consumer_generation': 1, 'project_id': 'proj1',
               'user_id': 'user1', 'consumer_type': 'INSTANCE',
               'mappings': {'_grp1': [P(1)], '': [P(4)]}},
        K(3): {'allocations': {P(4): {'resources': {'VCPU': 1}}}, 'consumer_generation': None,
               'project_id': 'proj3', 'user_id': 'user3', 'consumer_type': 'CUSTOM_NEWTYPE'}})
    B('alloc-post@1.13', 'POST', '/allocations', mv='1.13', body={
        K(3): {'allocations': {P(4): {'resources': {'VCPU': 1}}},
               'project_id': 'proj3', 'user_id': 'user3'}})
    B('alloc-get', 'GET', '/allocations/{consumer_uuid}', [K(1)])
    B('alloc-put', 'PUT', '/allocations/{consumer_uuid}', [K(1)], body={
        'allocations': alloc_dict, 'consumer_generation': 1, 'project_id': 'proj1',
        'user_id': 'user9', 'consumer_type': 'CUSTOM_NEWTYPE', 'mappings': {'_g': [P(1)]}})
    B('alloc-put@1.28', 'PUT', '/allocations/{consumer_uuid}', [K(3)], mv='1.28', body={
        'allocations': {P(4): {'resources': {'VCPU': 1}}}, 'consumer_generation': None,
        'project_id': 'proj3', 'user_id': 'user3'})
    B('alloc-put@1.12', 'PUT', '/allocations/{consumer_uuid}', [K(3)], mv='1.12', body={
        'allocations': {P(4): {'resources': {'VCPU': 1}}},
        'project_id': 'proj3', 'user_id': 'user3'})
    B('alloc-put-list@1.8', 'PUT', '/allocations/{consumer_uuid}', [K(3)], mv='1.8', body={
        'allocations': [{'resource_provider': {'uuid': P(4)}, 'resources': {'VCPU': 1}},
                        {'resource_provider': {'uuid': P(1)}, 'resources': {'MEMORY_MB': 64}}],
        'project_id': 'proj3', 'user_id': 'user3'})
    B('alloc-put-list@1.0', 'PUT', '/allocations/{consumer_uuid}', [K(3)], mv='1.0', body={
        'allocations': [{'resource_provider': {'uuid': P(4)}, 'resources': {'VCPU': 1}}]})
    B('alloc-delete', 'DELETE', '/allocations/{consumer_uuid}', [K(2)])
    # -- allocation candidates
    B('ac-simple@1.10', 'GET', '/allocation_candidates', mv='1.10',
      query=[('resources', 'VCPU:1,MEMORY_MB:512')])
    B('ac-flat', 'GET', '/allocation_candidates', query=[
        ('resources', 'VCPU:1,DISK_GB:5'), ('required', 'HW_CPU_X86_AVX,!CUSTOM_UNUSED'),
        ('member_of', 'in:%s,%s' % (A(1), A(2))), ('limit', '5')])
    B('ac-granular', 'GET', '/allocation_candidates', query=[
        ('resources', 'MEMORY_MB:512'), ('required', '!CUSTOM_UNUSED'),
        ('required', 'in:CUSTOM_FAST,HW_CPU_X86_AVX'), ('member_of', '!in:%s' % A(9)),
        ('resources_NUMA', 'VCPU:1'), ('required_NUMA', 'HW_NUMA_ROOT'),
        ('member_of_NUMA', '!' + A(9)), ('in_tree_NUMA', P(1)),
        ('resources2', 'DISK_GB:5'), ('required2', SHARING),
        ('required_T', 'CUSTOM_FAST'),
        ('group_policy', 'none'), ('same_subtree', '_NUMA,_T'),
        ('root_required', 'HW_CPU_X86_AVX,!CUSTOM_UNUSED'), ('in_tree', P(1)),
        ('limit', '10')])
    B('ac-granular@1.25', 'GET', '/allocation_candidates', mv='1.25', query=[
        ('resources', 'VCPU:1'), ('resources1', 'MEMORY_MB:512'), ('required1', 'CUSTOM_FAST'),
        ('member_of1', A(1)), ('resources2', 'DISK_GB:5'), ('group_policy', 'isolate'),
        ('limit', '3')])
    # -- traits
    B('trait-list', 'GET', '/traits')
    B('trait-list-q', 'GET', '/traits',
      query=[('name', 'in:CUSTOM_FAST,HW_CPU_X86_AVX'), ('associated', 'true')])
    B('trait-list-startswith', 'GET', '/traits', query=[('name', 'startswith:CUSTOM_')])
    B('trait-get', 'GET', '/traits/{name}', ['CUSTOM_FAST'])
    B('trait-put', 'PUT', '/traits/{name}', ['CUSTOM_NEWTRAIT'])
    B('trait-delete', 'DELETE', '/traits/{name}', ['CUSTOM_UNUSED'])
    B('rp-traits-get', 'GET', rp + '/traits', [P(1)])
    B('rp-traits-put', 'PUT', rp + '/traits', [P(4)],
      body={'traits': ['CUSTOM_FAST', 'HW_CPU_X86_AVX2'], 'resource_provider_generation': 1})
    B('rp-traits-delete', 'DELETE', rp + '/traits', [P(1)])
    # -- usages
    B('usages', 'GET', '/usages',
      query=[('project_id', 'proj1'), ('user_id', 'user1'), ('consumer_type', 'INSTANCE')])
    B('usages@1.9', 'GET', '/usages', query=[('project_id', 'proj1')], mv='1.9')
    # -- reshaper
    B('reshaper', 'POST', '/reshaper', body={
        'inventories': {
            P(4): {'resource_provider_generation': 1,
                   'inventories': {'VCPU': dict(INV_BODY), 'CUSTOM_GOLD': {'total': 2}}},
            P(8): {'resource_provider_generation': 0,
                   'inventories': {'MEMORY_MB': {'total': 1024}}}},
        'allocations': {
            K(2): {'allocations': {P(4): {'resources': {'VCPU': 1}},
                                   P(8): {'resources': {'MEMORY_MB': 128}}},
                   'project_id': 'proj2', 'user_id': 'user2', 'consumer_generation': 1,
                   'consumer_type': 'MIGRATION', 'mappings': {'_a': [P(4)]}}}})
    B('reshaper@1.30', 'POST', '/reshaper', mv='1.30', body={
        'inventories': {P(4): {'resource_provider_generation': 1,
                               'inventories': {'VCPU': {'total': 8}}}},
        'allocations': {}})
    return out


def base_path(base):
    """-> list of [text, kind]; kind = 'lit' or the placeholder name."""
    segs = []
    args = list(base['args'])
    for s in base['route'].split('/')[1:]:
        if s.startswith('{'):
            segs.append([args.pop(0), s[1:-1]])
        else:
            segs.append([s, 'lit'])
    return segs


def base_request(base):
    path = '/' + '/'.join(s for s, _ in base_path(base))
    query = '&'.join('%s=%s' % (k, v) for k, v in base['query']) or None
    body = None if base['body'] is None else json.dumps(base['body']).encode()
    return make_req(base['method'], path, query,
                    std_headers(base['mv'], body is not None), body)
