"""C15 -- arbitrary input yields well-formed client errors, never a server error.

E-enum over a *mutation grammar*: a corpus of valid requests (one per route x method x body
format) is mutated at EVERY position of path, query, headers and body by a fixed, finite set
of operators; depth 1 = every single mutation, depth 2 = every pair of mutations inside one
request part.  Every mutated request is executed through the real WSGI pipeline on a restored
database image (three states) and judged by an oracle written from the property statement,
api-ref/source/errors.inc and the 1.23 entry of rest_api_version_history.rst:

  * the WSGI call returns (no escaped exception), the response is well formed;
  * status < 500;
  * a 4xx whose client asked for JSON carries `application/json` and errors[0] has status,
    title, detail, request_id and -- when the negotiated microversion is >= 1.23 -- code
    (401 is exempted: errors.inc says it is produced by other code);
  * 400 / 404 / 405 / 406 / 415 leave the database dump unchanged.

The request builder below creates the WSGI environ itself (byte-exact path, query, headers,
content-length and body) because the mutations include things a friendly client library
refuses to send.
"""
import io
import json
import re
from urllib.parse import quote, unquote_to_bytes

import webob

from vp import http
from vp.enum import EnumWorker
from vp.names import A, K, P, UNKNOWN_UUID
from vp.probe import Run
from vp.snapshot import diff

MALFORMED = (400, 404, 405, 406, 415)
SHARING = 'MISC_SHARES_VIA_AGGREGATE'
LATEST = (1, 39)

# =========================================================================================
# 1. States
# =========================================================================================

INV_FULL = {'total': 16, 'reserved': 1, 'min_unit': 1, 'max_unit': 16, 'step_size': 1,
            'allocation_ratio': 2.0}


def _rp(i, name, parent=None):
    b = {'name': name, 'uuid': P(i)}
    if parent:
        b['parent_provider_uuid'] = P(parent)
    return S('POST', '/resource_providers', b)


def _inv(i, gen, **classes):
    return S('PUT', '/resource_providers/%s/inventories' % P(i),
             {'resource_provider_generation': gen,
              'inventories': {rc: (v if isinstance(v, dict) else {'total': v})
                              for rc, v in classes.items()}})


def _traits(i, gen, *traits):
    return S('PUT', '/resource_providers/%s/traits' % P(i),
             {'resource_provider_generation': gen, 'traits': list(traits)})


def _aggs(i, gen, *aggs):
    return S('PUT', '/resource_providers/%s/aggregates' % P(i),
             {'resource_provider_generation': gen, 'aggregates': list(aggs)})


def _alloc(k, allocs, project, user, ctype):
    return S('PUT', '/allocations/%s' % K(k),
             {'allocations': {P(i): {'resources': res} for i, res in allocs.items()},
              'consumer_generation': None, 'project_id': project, 'user_id': user,
              'consumer_type': ctype})


def S(method, path, body=None, mv='1.39'):
    """A plain valid request (used for state construction)."""
    return make_req(method, path, None, std_headers(mv, body is not None),
                    None if body is None else json.dumps(body).encode())


COMMON_SETUP = [
    ('PUT', '/resource_classes/CUSTOM_GOLD'), ('PUT', '/resource_classes/CUSTOM_UNUSED'),
    ('PUT', '/traits/CUSTOM_FAST'), ('PUT', '/traits/CUSTOM_UNUSED'),
]


def state_requests(name):
    """Setup requests of a named state.  Conventions shared by the populated states so that the
    same corpus is valid in both: P1 = main provider (generation 3, VCPU/MEMORY_MB/CUSTOM_GOLD,
    traits HW_CPU_X86_AVX + CUSTOM_FAST, aggregates A1 A2); P4 = root provider 'rp4' without
    allocations, generation 1, VCPU inventory; P8 = bare leaf 'rp8' (deletable); K1, K2 =
    consumers of generation 1."""
    if name == 'empty':
        return []
    reqs = [S(m, p) for m, p in COMMON_SETUP]
    if name == 'flat':
        reqs += [
            _rp(1, 'rp1'), _rp(2, 'rp2'), _rp(3, 'rp3'), _rp(4, 'rp4'), _rp(8, 'rp8'),
            _inv(1, 0, VCPU=INV_FULL, MEMORY_MB=32768, CUSTOM_GOLD=4),
            _traits(1, 1, 'HW_CPU_X86_AVX', 'CUSTOM_FAST'),
            _aggs(1, 2, A(1), A(2)),
            _inv(2, 0, VCPU=8, MEMORY_MB=16384), _aggs(2, 1, A(1)),
            _inv(3, 0, DISK_GB=1000), _traits(3, 1, SHARING), _aggs(3, 2, A(1)),
            _inv(4, 0, VCPU=4),
            _alloc(1, {1: {'VCPU': 2, 'MEMORY_MB': 1024}, 3: {'DISK_GB': 10}},
                   'proj1', 'user1', 'INSTANCE'),
            _alloc(2, {2: {'VCPU': 1}}, 'proj2', 'user2', 'MIGRATION'),
        ]
    elif name == 'nested':
        # tree 1: rp1 (compute) > rp2 (numa0) > rp5 (pf), rp1 > rp3 (numa1)
        # tree 2: rp6 (storage head) > rp7 = *nested sharing provider*: a child carrying
        #         MISC_SHARES_VIA_AGGREGATE whose aggregate A1 is shared with tree 1
        reqs += [
            _rp(1, 'rp1'), _rp(2, 'rp2', 1), _rp(3, 'rp3', 1), _rp(5, 'rp5', 2),
            _rp(6, 'rp6'), _rp(7, 'rp7', 6), _rp(4, 'rp4'), _rp(8, 'rp8', 4),
            _inv(1, 0, VCPU=INV_FULL, MEMORY_MB=32768, CUSTOM_GOLD=4),
            _traits(1, 1, 'HW_CPU_X86_AVX', 'CUSTOM_FAST'),
            _aggs(1, 2, A(1), A(2)),
            _inv(2, 0, VCPU=8, MEMORY_MB=16384), _traits(2, 1, 'HW_NUMA_ROOT'),
            _inv(3, 0, VCPU=8, MEMORY_MB=16384), _traits(3, 1, 'HW_NUMA_ROOT'),
            _inv(5, 0, SRIOV_NET_VF=8), _traits(5, 1, 'CUSTOM_FAST'),
            _inv(7, 0, DISK_GB=1000), _traits(7, 1, SHARING), _aggs(7, 2, A(1)),
            _aggs(6, 0, A(3)),
            _inv(4, 0, VCPU=4),
            _alloc(1, {1: {'VCPU': 2, 'MEMORY_MB': 1024}, 2: {'VCPU': 1},
                       5: {'SRIOV_NET_VF': 1}, 7: {'DISK_GB': 10}},
                   'proj1', 'user1', 'INSTANCE'),
            _alloc(2, {3: {'VCPU': 1, 'MEMORY_MB': 512}}, 'proj2', 'user2', 'MIGRATION'),
        ]
    else:
        raise ValueError(name)
    return reqs


STATES = ('nested', 'flat', 'empty')      # enumeration order: the richest state first

# =========================================================================================
# 2. Request representation and WSGI call
# =========================================================================================
# A request is a JSON-serialisable dict:
#   method, path (raw, percent-encoded request-target path), query (raw string or None),
#   headers [[name, value], ...] (all of them, incl. credentials), body (latin-1 str of the
#   body bytes, or None), clen (explicit Content-Length header text, or absent = len(body)).


def std_headers(mv, has_body, accept='application/json'):
    h = [['X-Auth-Token', 'admin'], ['X-Roles', 'admin,service']]
    if mv is not None:
        h.append(['OpenStack-API-Version', 'placement %s' % mv])
    if accept is not None:
        h.append(['Accept', accept])
    if has_body:
        h.append(['Content-Type', 'application/json'])
    return h


def make_req(method, path, query, headers, body, clen=None):
    r = {'method': method, 'path': path, 'query': query, 'headers': headers,
         'body': None if body is None else body.decode('latin-1')}
    if clen is not None:
        r['clen'] = clen
    return r


def environ_of(req):
    env = webob.Request.blank('/').environ
    env['REQUEST_METHOD'] = req['method']
    env['REMOTE_ADDR'] = '127.0.0.1'
    # what a WSGI server does: percent-decode the path, hand the bytes over as latin-1
    env['PATH_INFO'] = unquote_to_bytes(req['path']).decode('latin-1')
    env['QUERY_STRING'] = req.get('query') or ''
    body = req.get('body')
    raw = b'' if body is None else body.encode('latin-1')
    env['wsgi.input'] = io.BytesIO(raw)
    if 'clen' in req:
        env['CONTENT_LENGTH'] = req['clen']
    elif body is not None:
        env['CONTENT_LENGTH'] = str(len(raw))
    else:
        env.pop('CONTENT_LENGTH', None)
    env.pop('CONTENT_TYPE', None)
    for name, value in req['headers']:
        key = name.upper().replace('-', '_')
        if key == 'CONTENT_TYPE':
            env['CONTENT_TYPE'] = value
        else:
            env['HTTP_' + key] = value
    return env


def wsgi_call(app, req):
    """-> vp.http.Resp; status 599 = an exception escaped the whole pipeline (or the
    application broke the WSGI protocol)."""
    env = environ_of(req)
    try:
        resp = webob.Request(env).get_response(app)
        return http.Resp(resp.status_int, dict(resp.headers), resp.body)
    except Exception as e:  # noqa
        return http.Resp(599, {}, repr(e).encode()[:2000], escaped=e)


# =========================================================================================
# 3. Base corpus
# =========================================================================================

INV_BODY = {'total': 8, 'reserved': 0, 'min_unit': 1, 'max_unit': 8, 'step_size': 1,
            'allocation_ratio': 1.5}


def corpus():
    """One valid request per (route, method) and per body / query format.
    Entry: dict(id, method, route, args (values of the {placeholders}), query [(k, v)...],
    body, mv).  Valid (2xx) in the two populated states; in the empty state the ones that
    name existing objects are legitimately 404 and their mutations are still judged."""
    out = []

    def B(id_, method, route, args=(), query=None, body=None, mv='1.39'):
        out.append({'id': id_, 'method': method, 'route': route, 'args': list(args),
                    'query': [list(x) for x in (query or [])], 'body': body, 'mv': mv})

    rp = '/resource_providers/{uuid}'
    # -- root
    B('root', 'GET', '/')
    # -- resource classes
    B('rc-list', 'GET', '/resource_classes')
    B('rc-post', 'POST', '/resource_classes', body={'name': 'CUSTOM_NEW'})
    B('rc-get', 'GET', '/resource_classes/{name}', ['CUSTOM_GOLD'])
    B('rc-put', 'PUT', '/resource_classes/{name}', ['CUSTOM_NEW'])
    B('rc-put@1.6', 'PUT', '/resource_classes/{name}', ['CUSTOM_UNUSED'],
      body={'name': 'CUSTOM_RENAMED'}, mv='1.6')
    B('rc-delete', 'DELETE', '/resource_classes/{name}', ['CUSTOM_UNUSED'])
    # -- resource providers
    B('rp-list', 'GET', '/resource_providers')
    B('rp-list-name', 'GET', '/resource_providers', query=[('name', 'rp1')])
    B('rp-list-uuid', 'GET', '/resource_providers', query=[('uuid', P(1))])
    B('rp-list-member_of', 'GET', '/resource_providers',
      query=[('member_of', 'in:%s,%s' % (A(1), A(2)))])
    B('rp-list-member_of@1.3', 'GET', '/resource_providers',
      query=[('member_of', A(1))], mv='1.3')
    B('rp-list-resources', 'GET', '/resource_providers',
      query=[('resources', 'VCPU:1,MEMORY_MB:512')])
    B('rp-list-in_tree', 'GET', '/resource_providers', query=[('in_tree', P(1))])
    B('rp-list-required', 'GET', '/resource_providers',
      query=[('required', 'HW_CPU_X86_AVX,!CUSTOM_UNUSED')])
    B('rp-list-required@1.18', 'GET', '/resource_providers',
      query=[('required', 'HW_CPU_X86_AVX')], mv='1.18')
    B('rp-list-all', 'GET', '/resource_providers', query=[
        ('name', 'rp1'), ('uuid', P(1)), ('member_of', 'in:%s,%s' % (A(1), A(2))),
        ('member_of', '!' + A(9)), ('resources', 'VCPU:1,MEMORY_MB:512'),
        ('in_tree', P(1)), ('required', 'HW_CPU_X86_AVX,!CUSTOM_UNUSED'),
        ('required', 'in:CUSTOM_FAST,HW_CPU_X86_SSE')])
    B('rp-post', 'POST', '/resource_providers',
      body={'name': 'rp-new', 'uuid': P(20), 'parent_provider_uuid': P(4)})
    B('rp-post@1.0', 'POST', '/resource_providers', body={'name': 'rp-new'}, mv='1.0')
    B('rp-get', 'GET', rp, [P(1)])
    B('rp-delete', 'DELETE', rp, [P(8)])
    B('rp-put', 'PUT', rp, [P(8)], body={'name': 'rp8-renamed', 'parent_provider_uuid': P(4)})
    B('rp-put@1.0', 'PUT', rp, [P(8)], body={'name': 'rp8-renamed'}, mv='1.0')
    # -- inventories
    B('inv-list', 'GET', rp + '/inventories', [P(1)])
    B('inv-post', 'POST', rp + '/inventories', [P(4)],
      body=dict(INV_BODY, resource_class='CUSTOM_GOLD'))
    B('inv-put-all', 'PUT', rp + '/inventories', [P(4)],
      body={'resource_provider_generation': 1,
            'inventories': {'VCPU': dict(INV_BODY), 'CUSTOM_GOLD': {'total': 2}}})
    B('inv-delete-all', 'DELETE', rp + '/inventories', [P(4)])
    B('inv-get', 'GET', rp + '/inventories/{resource_class}', [P(1), 'CUSTOM_GOLD'])
    B('inv-put', 'PUT', rp + '/inventories/{resource_class}', [P(4), 'VCPU'],
      body=dict(INV_BODY, resource_provider_generation=1))
    B('inv-delete', 'DELETE', rp + '/inventories/{resource_class}', [P(4), 'VCPU'])
    # the same writes below 1.26 (where reserved == total is still refused: other error classes)
    B('inv-put-all@1.25', 'PUT', rp + '/inventories', [P(4)],
      body={'resource_provider_generation': 1,
            'inventories': {'VCPU': dict(INV_BODY), 'CUSTOM_GOLD': {'total': 2}}}, mv='1.25')
    B('inv-put@1.0', 'PUT', rp + '/inventories/{resource_class}', [P(4), 'VCPU'],
      body=dict(INV_BODY, resource_provider_generation=1), mv='1.0')
    B('inv-post@1.25', 'POST', rp + '/inventories', [P(4)],
      body=dict(INV_BODY, resource_class='CUSTOM_GOLD'), mv='1.25')
    # -- usages, aggregates, provider allocations
    B('rp-usages', 'GET', rp + '/usages', [P(1)])
    B('agg-get', 'GET', rp + '/aggregates', [P(1)])
    B('agg-put', 'PUT', rp + '/aggregates', [P(4)],
      body={'aggregates': [A(1), A(4)], 'resource_provider_generation': 1})
    B('agg-put@1.1', 'PUT', rp + '/aggregates', [P(4)], body=[A(1), A(4)], mv='1.1')
    B('rp-allocs', 'GET', rp + '/allocations', [P(1)])
    # -- allocations
    alloc_dict = {P(1): {'resources': {'VCPU': 1, 'MEMORY_MB': 256}},
                  P(4): {'resources': {'VCPU': 1}}}
    B('alloc-post', 'POST', '/allocations', body={
        K(1): {'allocations': alloc_dict, 'consumer_generation': 1, 'project_id': 'proj1',
               'user_id': 'user1', 'consumer_type': 'INSTANCE',
               'mappings': {'_grp1': [P(1)], '': [P(4)]}},
        K(3): {'allocations': {P(4): {'resources': {'VCPU': 1}}}, 'consumer_generation': None,
               'project_id': 'proj3', 'user_id': 'user3', 'consumer_type': 'CUSTOM_NEWTYPE'}})
    B('alloc-post@1.13', 'POST', '/allocations', mv='1.13', body={
        K(3): {'allocations': {P(4): {'resources': {'VCPU': 1}}},
               'project_id': 'proj3', 'user_id': 'user3'}})
    # the 1.28-1.33 and 1.34-1.37 per-consumer schemas (two consumers, the first one new)
    B('alloc-post@1.28', 'POST', '/allocations', mv='1.28', body={
        K(3): {'allocations': {P(4): {'resources': {'VCPU': 1}}}, 'consumer_generation': None,
               'project_id': 'proj3', 'user_id': 'user3'},
        K(1): {'allocations': alloc_dict, 'consumer_generation': 1, 'project_id': 'proj1',
               'user_id': 'user1'}})
    B('alloc-post@1.34', 'POST', '/allocations', mv='1.34', body={
        K(3): {'allocations': {P(4): {'resources': {'VCPU': 1}}}, 'consumer_generation': None,
               'project_id': 'proj3', 'user_id': 'user3', 'mappings': {'': [P(4)]}},
        K(1): {'allocations': alloc_dict, 'consumer_generation': 1, 'project_id': 'proj1',
               'user_id': 'user1'}})
    B('alloc-get', 'GET', '/allocations/{consumer_uuid}', [K(1)])
    B('alloc-put', 'PUT', '/allocations/{consumer_uuid}', [K(1)], body={
        'allocations': alloc_dict, 'consumer_generation': 1, 'project_id': 'proj1',
        'user_id': 'user9', 'consumer_type': 'CUSTOM_NEWTYPE', 'mappings': {'_g': [P(1)]}})
    B('alloc-put@1.28', 'PUT', '/allocations/{consumer_uuid}', [K(3)], mv='1.28', body={
        'allocations': {P(4): {'resources': {'VCPU': 1}}}, 'consumer_generation': None,
        'project_id': 'proj3', 'user_id': 'user3'})
    B('alloc-put@1.12', 'PUT', '/allocations/{consumer_uuid}', [K(3)], mv='1.12', body={
        'allocations': {P(4): {'resources': {'VCPU': 1}}},
        'project_id': 'proj3', 'user_id': 'user3'})
    B('alloc-put-list@1.8', 'PUT', '/allocations/{consumer_uuid}', [K(3)], mv='1.8', body={
        'allocations': [{'resource_provider': {'uuid': P(4)}, 'resources': {'VCPU': 1}},
                        {'resource_provider': {'uuid': P(1)}, 'resources': {'MEMORY_MB': 64}}],
        'project_id': 'proj3', 'user_id': 'user3'})
    B('alloc-put-list@1.0', 'PUT', '/allocations/{consumer_uuid}', [K(3)], mv='1.0', body={
        'allocations': [{'resource_provider': {'uuid': P(4)}, 'resources': {'VCPU': 1}}]})
    B('alloc-delete', 'DELETE', '/allocations/{consumer_uuid}', [K(2)])
    # -- allocation candidates
    B('ac-simple@1.10', 'GET', '/allocation_candidates', mv='1.10',
      query=[('resources', 'VCPU:1,MEMORY_MB:512')])
    B('ac-flat', 'GET', '/allocation_candidates', query=[
        ('resources', 'VCPU:1,DISK_GB:5'), ('required', 'HW_CPU_X86_AVX,!CUSTOM_UNUSED'),
        ('member_of', 'in:%s,%s' % (A(1), A(2))), ('limit', '5')])
    B('ac-local', 'GET', '/allocation_candidates', query=[
        ('resources', 'VCPU:1,MEMORY_MB:512'), ('required', 'HW_CPU_X86_AVX,!CUSTOM_UNUSED'),
        ('member_of', 'in:%s,%s' % (A(1), A(2))), ('limit', '5')])
    B('ac-granular', 'GET', '/allocation_candidates', query=[
        ('resources', 'MEMORY_MB:512'), ('required', '!CUSTOM_UNUSED'),
        ('required', 'in:CUSTOM_FAST,HW_CPU_X86_AVX'), ('member_of', '!in:%s' % A(9)),
        ('resources_NUMA', 'VCPU:1'), ('required_NUMA', 'HW_NUMA_ROOT'),
        ('member_of_NUMA', '!' + A(9)), ('in_tree_NUMA', P(1)),
        ('resources2', 'DISK_GB:5'), ('required2', SHARING),
        ('required_T', 'CUSTOM_FAST'),
        ('group_policy', 'none'), ('same_subtree', '_NUMA,_T'),
        ('root_required', 'HW_CPU_X86_AVX,!CUSTOM_UNUSED'), ('in_tree', P(1)),
        ('limit', '10')])
    B('ac-granular@1.25', 'GET', '/allocation_candidates', mv='1.25', query=[
        ('resources', 'VCPU:1'), ('resources1', 'MEMORY_MB:512'), ('required1', 'CUSTOM_FAST'),
        ('member_of1', A(1)), ('resources2', 'DISK_GB:5'), ('group_policy', 'isolate'),
        ('limit', '3')])
    # -- traits
    B('trait-list', 'GET', '/traits')
    B('trait-list-q', 'GET', '/traits',
      query=[('name', 'in:CUSTOM_FAST,HW_CPU_X86_AVX'), ('associated', 'true')])
    B('trait-list-startswith', 'GET', '/traits', query=[('name', 'startswith:CUSTOM_')])
    B('trait-get', 'GET', '/traits/{name}', ['CUSTOM_FAST'])
    B('trait-put', 'PUT', '/traits/{name}', ['CUSTOM_NEWTRAIT'])
    B('trait-delete', 'DELETE', '/traits/{name}', ['CUSTOM_UNUSED'])
    B('rp-traits-get', 'GET', rp + '/traits', [P(1)])
    B('rp-traits-put', 'PUT', rp + '/traits', [P(4)],
      body={'traits': ['CUSTOM_FAST', 'HW_CPU_X86_AVX2'], 'resource_provider_generation': 1})
    B('rp-traits-delete', 'DELETE', rp + '/traits', [P(1)])
    # -- usages
    B('usages', 'GET', '/usages',
      query=[('project_id', 'proj1'), ('user_id', 'user1'), ('consumer_type', 'INSTANCE')])
    B('usages@1.9', 'GET', '/usages', query=[('project_id', 'proj1')], mv='1.9')
    # -- reshaper
    B('reshaper', 'POST', '/reshaper', body={
        'inventories': {
            P(4): {'resource_provider_generation': 1,
                   'inventories': {'VCPU': dict(INV_BODY), 'CUSTOM_GOLD': {'total': 2}}},
            P(8): {'resource_provider_generation': 0,
                   'inventories': {'MEMORY_MB': {'total': 1024}}}},
        'allocations': {
            K(2): {'allocations': {P(4): {'resources': {'VCPU': 1}},
                                   P(8): {'resources': {'MEMORY_MB': 128}}},
                   'project_id': 'proj2', 'user_id': 'user2', 'consumer_generation': 1,
                   'consumer_type': 'MIGRATION', 'mappings': {'_a': [P(4)]}}}})
    B('reshaper@1.30', 'POST', '/reshaper', mv='1.30', body={
        'inventories': {P(4): {'resource_provider_generation': 1,
                               'inventories': {'VCPU': {'total': 8}}}},
        'allocations': {}})
    return out


def base_path(base):
    """-> list of [text, kind]; kind = 'lit' or the placeholder name."""
    segs = []
    args = list(base['args'])
    for s in base['route'].split('/')[1:]:
        if s.startswith('{'):
            segs.append([args.pop(0), s[1:-1]])
        else:
            segs.append([s, 'lit'])
    return segs


def base_request(base):
    path = '/' + '/'.join(s for s, _ in base_path(base))
    query = '&'.join('%s=%s' % (k, v) for k, v in base['query']) or None
    body = None if base['body'] is None else json.dumps(base['body']).encode()
    return make_req(base['method'], path, query,
                    std_headers(base['mv'], body is not None), body)


# =========================================================================================
# 4. Junk sets
# =========================================================================================

NONASCII = 'hé☃\U0001d11e'
I31, I63, I64, E30 = 2 ** 31, 2 ** 63, 2 ** 64, 10 ** 30


def _j(s):
    return json.dumps(s).encode()


# (id, class, raw JSON bytes)
BODY_JUNK = [
    ('null', 'null', b'null'), ('true', 'bool', b'true'),
    ('0', 'int:0', b'0'), ('-1', 'int:neg', b'-1'), ('1', 'int:1', b'1'),
    ('1.0', 'float:integral', b'1.0'), ('1.5', 'float', b'1.5'),
    ('2^31-1', 'int<=2^31-1', b'%d' % (I31 - 1)),
    ('2^31', 'int:2^31..2^63-1', b'%d' % I31),
    ('2^63-1', 'int:2^31..2^63-1', b'%d' % (I63 - 1)),
    ('2^63', 'int>=2^63', b'%d' % I63), ('2^64', 'int>=2^63', b'%d' % I64),
    ('10^30', 'int>=2^63', b'%d' % E30), ('-2^63-1', 'int<-2^63', b'%d' % (-I63 - 1)),
    ('NaN', 'nan', b'NaN'), ('Infinity', 'inf', b'Infinity'), ('-Infinity', 'inf', b'-Infinity'),
    ('1e400', 'float:overflow', b'1e400'), ('-1e400', 'float:overflow', b'-1e400'),
    ('""', 'str:empty', b'""'), ('" "', 'str:blank', b'" "'), ('"x"', 'str:short', b'"x"'),
    ('256A', 'str:long', _j('A' * 256)), ('nonascii', 'str:nonascii', _j(NONASCII)),
    ('nul', 'str:ctrl', b'"x\\u0000y"'), ('newline', 'str:ctrl', b'"x\\n"'),
    ('surrogate', 'str:surrogate', b'"\\ud800"'),
    # the same escape in the other spellings JSON allows (hex digits are case-insensitive), and a
    # lone LOW surrogate inside a longer string
    ('surrogate-uc', 'str:surrogate', b'"\\uD800"'),
    ('surrogate-low', 'str:surrogate', b'"x\\uDc00y"'),
    ('badutf8', 'bytes:invalid-utf8', b'"\xff\xfe"'),
    ('[]', 'list', b'[]'), ('{}', 'dict', b'{}'),
    ('deep', 'deep', b'[' * 100 + b']' * 100),
    # deep enough to exhaust the recursion limit while validating / reporting, not while decoding
    ('deep500', 'deep', b'[' * 500 + b']' * 500), ('deep900', 'deep', b'[' * 900 + b']' * 900),
]
BODY_JUNK_BY_ID = {j[0]: j for j in BODY_JUNK}
# reduced set used for pairs (one representative per behaviour class)
BODY_JUNK_D2 = ['null', '-1', '1.5', '2^63', '""', '256A', 'nonascii', '[]', '{}']

KEY_JUNK = [
    ('""', 'str:empty', b'""'), ('" "', 'str:blank', b'" "'), ('"x"', 'str:short', b'"x"'),
    ('256A', 'str:long', _j('A' * 256)), ('nonascii', 'str:nonascii', _j(NONASCII)),
    ('nul', 'str:ctrl', b'"x\\u0000y"'), ('surrogate', 'str:surrogate', b'"\\ud800"'),
    ('badutf8', 'bytes:invalid-utf8', b'"\xff\xfe"'),
]
KEY_JUNK_BY_ID = {j[0]: j for j in KEY_JUNK}


def _q(s):
    return quote(s, safe='')


# (id, class, raw percent-encoded text) -- for query values, query tokens
QUERY_JUNK = [
    ('empty', 'str:empty', ''), ('blank', 'str:blank', '%20'), ('x', 'str:short', 'x'),
    ('256A', 'str:long', 'A' * 256), ('nonascii', 'str:nonascii', _q(NONASCII)),
    ('nul', 'str:ctrl', '%00'), ('newline', 'str:ctrl', 'x%0A'),
    ('surrogate', 'str:surrogate', '%ED%A0%80'), ('badutf8', 'bytes:invalid-utf8', '%FF%FE'),
    ('rawlatin1', 'bytes:invalid-utf8', '\xe9'),
    ('badpct', 'pct:invalid', '%zz'), ('pct', 'pct:invalid', '%'), ('plus', 'str:blank', '+'),
    ('0', 'int:0', '0'), ('-1', 'int:neg', '-1'), ('1', 'int:1', '1'),
    ('1.0', 'float:integral', '1.0'), ('1.5', 'float', '1.5'),
    ('2^31-1', 'int<=2^31-1', str(I31 - 1)), ('2^31', 'int:2^31..2^63-1', str(I31)),
    ('2^63-1', 'int:2^31..2^63-1', str(I63 - 1)), ('2^63', 'int>=2^63', str(I63)),
    ('2^64', 'int>=2^63', str(I64)), ('10^30', 'int>=2^63', str(E30)),
    ('-2^63-1', 'int<-2^63', str(-I63 - 1)),
    ('NaN', 'nan', 'NaN'), ('Infinity', 'inf', 'Infinity'), ('-Infinity', 'inf', '-Infinity'),
    ('1e400', 'float:overflow', '1e400'),
    ('fullwidth1', 'int:exotic', '%EF%BC%91'), ('1_0', 'int:exotic', '1_0'),
    ('+1', 'int:exotic', '%2B1'), ('sp1', 'int:exotic', '%201'), ('0x10', 'int:exotic', '0x10'),
    ('null', 'null', 'null'), ('true', 'bool', 'true'), ('[]', 'list', '%5B%5D'),
    ('{}', 'dict', '%7B%7D'),
    (':', 'syntax', ':'), (',', 'syntax', ','), ('!', 'syntax', '!'), ('in:', 'syntax', 'in:'),
    ('!in:', 'syntax', '!in:'), ('in:,', 'syntax', 'in:,'), (',,', 'syntax', ',,'),
    ('a:b:c', 'syntax', 'a:b:c'), (':1', 'syntax', ':1'), ('VCPU:', 'syntax', 'VCPU:'),
    ('VCPU:1:2', 'syntax', 'VCPU:1:2'), ('!!', 'syntax', '!!X'), ('in:!x', 'syntax', 'in:!x'),
    ('startswith:', 'syntax', 'startswith:'), ('VCPU:1,', 'syntax', 'VCPU:1,'),
    (',VCPU:1', 'syntax', ',VCPU:1'),
]
QUERY_JUNK_BY_ID = {j[0]: j for j in QUERY_JUNK}
QUERY_JUNK_D2 = ['empty', 'x', 'nonascii', 'badutf8', '-1', '2^63', ':', ',', '!', 'in:']

PATH_JUNK = [
    ('blank', 'str:blank', '%20'), ('x', 'str:short', 'x'), ('256A', 'str:long', 'A' * 256),
    ('10kA', 'str:verylong', 'A' * 10000), ('nonascii', 'str:nonascii', _q(NONASCII)),
    ('nul', 'str:ctrl', '%00'), ('newline', 'str:ctrl', 'x%0A'),
    ('badutf8', 'bytes:invalid-utf8', '%FF%FE'), ('badpct', 'pct:invalid', '%zz'),
    ('pct', 'pct:invalid', '%'), ('0', 'int:0', '0'), ('-1', 'int:neg', '-1'),
    ('2^63', 'int>=2^63', str(I63)), ('null', 'null', 'null'), ('.', 'dot', '.'),
    ('..', 'dot', '..'), ('enc..', 'dot', '%2E%2E'), ('*', 'str:short', '*'),
    ('enc?', 'str:short', 'a%3Fb'), ('enc#', 'str:short', 'a%23b'), ('enc%', 'str:short', '%25'),
    (';a=b', 'str:short', 'x;a=b'), ('{uuid}', 'str:short', '%7Buuid%7D'),
    ('a%2Fb', 'encslash', 'a%2Fb'), ('a%252Fb', 'encslash', 'a%252Fb'),
    ('backslash', 'str:short', '%5C'), ('plus', 'str:short', '+'),
]
PATH_JUNK_BY_ID = {j[0]: j for j in PATH_JUNK}
PATH_JUNK_D2 = ['x', '256A', 'nonascii', 'badutf8', 'nul', '..']

UUID_RE = re.compile(r'^[0-9a-f]{8}-[0-9a-f]{4}-[0-9a-f]{4}-[0-9a-f]{4}-[0-9a-f]{12}$')
NAME_RE = re.compile(r'^[A-Z0-9_]+$')
INT_RE = re.compile(r'^-?[0-9]+$')


def tweaks(v):
    """Grammar-aware mutations of a valid string / integer: [(id, class, new python value)]."""
    out = []
    if isinstance(v, bool) or v is None:
        return out
    if isinstance(v, int):
        return [('as-str', 'int-as-str', str(v)), ('neg', 'int:neg', -v),
                ('float', 'float:integral', float(v)), ('plus.5', 'float', v + 0.5),
                ('plus1e6', 'int:large-valid', v + 10 ** 6)] + (
                    [('zero', 'int:zero', 0)] if v else [])
    if isinstance(v, float):
        return [('as-str', 'float-as-str', str(v)), ('neg', 'float:neg', -v),
                ('tiny', 'float:tiny', 1e-9), ('huge', 'float:huge', 1e39)]
    if not isinstance(v, str):
        return out
    if UUID_RE.match(v):
        out += [('upper', 'uuid:upper', v.upper()), ('undashed', 'uuid:undashed',
                                                     v.replace('-', '')),
                ('braces', 'uuid:braces', '{%s}' % v), ('urn', 'uuid:urn', 'urn:uuid:' + v),
                ('trunc', 'uuid:truncated', v[:-1]), ('unknown', 'uuid:unknown', UNKNOWN_UUID)]
    elif NAME_RE.match(v) and not INT_RE.match(v):
        out += [('lower', 'name:lower', v.lower()),
                ('unknown', 'name:unknown', 'CUSTOM_ZZZ_UNKNOWN'),
                ('unknown-std', 'name:unknown', 'ZZZ_UNKNOWN'),
                ('long', 'name:long', 'CUSTOM_' + 'A' * 250),
                ('prefix-only', 'name:prefix-only', 'CUSTOM_'),
                ('dash', 'name:dash', v.replace('_', '-') + '-X'),
                ('standard', 'name:standard', 'VCPU' if v != 'VCPU' else 'HW_CPU_X86_AVX')]
    elif INT_RE.match(v):
        n = int(v)
        out += [('neg', 'int:neg', str(-n if n else -1)), ('float', 'float:integral', v + '.0'),
                ('plus1e6', 'int:large-valid', str(n + 10 ** 6))]
    else:
        out += [('upper', 'str:upper', v.upper())]
    out += [('+newline', 'str:+newline', v + '\n'), ('+nul', 'str:+nul', v + '\x00'),
            ('+space', 'str:+space', v + ' '), ('+nonascii', 'str:+nonascii', v + 'é')]
    return out


def tweak_of(v, tid):
    for t in tweaks(v):
        if t[0] == tid:
            return t
    return None


# =========================================================================================
# 5. Body tree, serialiser, body mutations
# =========================================================================================
# A tree node is ['d', [[key_bytes, node], ...]] | ['l', [node, ...]] | ['s', raw_bytes, pyvalue]


def tree_of(v):
    if isinstance(v, dict):
        return ['d', [[_j(k), tree_of(x)] for k, x in v.items()]]
    if isinstance(v, list):
        return ['l', [tree_of(x) for x in v]]
    return ['s', _j(v), v]


def ser(n):
    if n[0] == 'd':
        return b'{' + b', '.join(k + b': ' + ser(x) for k, x in n[1]) + b'}'
    if n[0] == 'l':
        return b'[' + b', '.join(ser(x) for x in n[1]) + b']'
    return n[1]


def walk(n, path=()):
    """yield (path, node); a path element is an index into the pairs / items list."""
    yield path, n
    if n[0] == 'd':
        for i, (_, x) in enumerate(n[1]):
            for y in walk(x, path + (i,)):
                yield y
    elif n[0] == 'l':
        for i, x in enumerate(n[1]):
            for y in walk(x, path + (i,)):
                yield y


def node_at(n, path):
    for i in path:
        n = n[1][i][1] if n[0] == 'd' else n[1][i]
    return n


def pointer_class(tree, path):
    """JSON-pointer-like class of a position: uuid keys -> {uuid}, class/trait-like keys ->
    {NAME}, other pattern keys kept, list indexes -> []."""
    out = []
    n = tree
    for i in path:
        if n[0] == 'd':
            k = json.loads(n[1][i][0])
            if UUID_RE.match(k):
                k = '{uuid}'
            elif NAME_RE.match(k):
                k = '{NAME}'
            elif k == '' or k.startswith('_'):
                k = '{suffix}'
            out.append(k)
            n = n[1][i][1]
        else:
            out.append('[]')
            n = n[1][i]
    return '/' + '/'.join(out)


def body_ops(tree, junk_ids=None, d2=False):
    """All single body mutations: (path, op, arg, jclass)."""
    ops = []
    junk = [j for j in BODY_JUNK if junk_ids is None or j[0] in junk_ids]
    keyjunk = [j for j in KEY_JUNK if not d2 or j[0] in ('""', 'nonascii', '256A')]
    for path, n in walk(tree):
        for jid, jcls, _ in junk:
            ops.append((path, 'set', jid, jcls))
        if n[0] == 's' and not d2:
            for tid, tcls, _ in tweaks(n[2]):
                ops.append((path, 'tweak', tid, tcls))
        if n[0] == 'd':
            ops.append((path, 'addkey', None, 'unknown-key'))
        if n[0] == 'l' and n[1]:
            ops.append((path, 'dupitem', None, 'duplicate-item'))
        if path:
            parent = node_at(tree, path[:-1])
            ops.append((path, 'del', None, 'delete'))
            if parent[0] == 'd':
                if not d2:
                    ops.append((path, 'dupkey', None, 'duplicate-key'))
                    k = json.loads(parent[1][path[-1]][0])
                    for tid, tcls, _ in tweaks(k):
                        ops.append((path, 'keytweak', tid, 'key:' + tcls))
                for jid, jcls, _ in keyjunk:
                    ops.append((path, 'key', jid, 'key:' + jcls))
    return ops


def apply_body(tree, ops):
    """Apply body ops (each (path, op, arg, ...)) -> bytes or None when they do not compose."""
    ops = sorted(ops, key=lambda o: o[0], reverse=True)       # later / deeper positions first
    for a in range(len(ops)):
        for b in range(a + 1, len(ops)):
            pa, pb = ops[a][0], ops[b][0]
            if pa[:len(pb)] == pb or pb[:len(pa)] == pa:
                return None
    t = json.loads(json.dumps(tree_jsonable(tree)))
    t = tree_unjson(t)
    for o in ops:
        path, op, arg = o[0], o[1], o[2]
        n = node_at(t, path)
        parent = node_at(t, path[:-1]) if path else None

        def replace(new):
            if parent is None:
                t[:] = new
            elif parent[0] == 'd':
                parent[1][path[-1]][1] = new
            else:
                parent[1][path[-1]] = new
        if op == 'set':
            replace(['s', BODY_JUNK_BY_ID[arg][2], None])
        elif op == 'tweak':
            replace(['s', _j(tweak_of(n[2], arg)[2]), None])
        elif op == 'addkey':
            n[1].append([b'"zz_unknown"', ['s', b'"x"', 'x']])
        elif op == 'dupitem':
            n[1].append(n[1][0])
        elif op == 'del':
            del parent[1][path[-1]]
        elif op == 'dupkey':
            parent[1].append(list(parent[1][path[-1]]))
        elif op == 'key':
            parent[1][path[-1]][0] = KEY_JUNK_BY_ID[arg][2]
        elif op == 'keytweak':
            k = json.loads(parent[1][path[-1]][0])
            parent[1][path[-1]][0] = _j(tweak_of(k, arg)[2])
        else:
            raise ValueError(op)
    return ser(t)


def tree_jsonable(n):
    if n[0] == 'd':
        return ['d', [[k.decode('latin-1'), tree_jsonable(x)] for k, x in n[1]]]
    if n[0] == 'l':
        return ['l', [tree_jsonable(x) for x in n[1]]]
    return ['s', n[1].decode('latin-1'), n[2]]


def tree_unjson(n):
    if n[0] == 'd':
        return ['d', [[k.encode('latin-1'), tree_unjson(x)] for k, x in n[1]]]
    if n[0] == 'l':
        return ['l', [tree_unjson(x) for x in n[1]]]
    return ['s', n[1].encode('latin-1'), n[2]]


# =========================================================================================
# 6. Query, path, envelope (method / headers / raw body) mutations
# =========================================================================================

TOK_RE = re.compile(r'([,:!])')
KNOWN_PARAMS = [
    ('name', 'rp1'), ('uuid', P(1)), ('member_of', A(1)), ('resources', 'VCPU:1'),
    ('in_tree', P(1)), ('required', 'HW_CPU_X86_AVX'), ('limit', '1'),
    ('group_policy', 'isolate'), ('same_subtree', '_A,_B'), ('root_required', 'CUSTOM_FAST'),
    ('project_id', 'proj1'), ('user_id', 'user1'), ('consumer_type', 'INSTANCE'),
    ('associated', 'true'), ('resources1', 'VCPU:1'), ('required1', 'CUSTOM_FAST'),
    ('member_of1', A(1)), ('in_tree1', P(1)), ('resources_A', 'VCPU:1'),
    ('required_B', 'CUSTOM_FAST'), ('zz_unknown', '1'), ('resources' + 'X' * 70, 'VCPU:1'),
    ('resources_' + 'a' * 65, 'VCPU:1'), ('resources-1', 'VCPU:1'), ('resources_é', 'VCPU:1'),
]
RAW_QUERY_SUFFIX = [
    ('&', 'syntax:raw', '&'), ('&&', 'syntax:raw', '&&a=1'), ('&=', 'syntax:raw', '&=1'),
    (';', 'syntax:raw', ';a=1'), ('&%zz', 'pct:invalid', '&%zz=1'), ('&%', 'pct:invalid', '&%'),
    ('&rawlatin1', 'bytes:invalid-utf8', '&\xe9=\xe9'), ('&badutf8', 'bytes:invalid-utf8',
                                                        '&%FF=%FE'),
    ('&nul', 'str:ctrl', '&%00=%00'), ('?', 'syntax:raw', '?'), ('#', 'syntax:raw', '#frag'),
    ('&long', 'str:verylong', '&a=' + 'A' * 20000),
]


def tok_kind(t):
    if UUID_RE.match(t):
        return 'uuid'
    if INT_RE.match(t):
        return 'amount'
    if t in ('in', 'startswith'):
        return 'prefix'
    return 'name'


def tokens(v):
    """-> list of value pieces; the odd ones are delimiters."""
    return TOK_RE.split(v)


def query_ops(query, d2=False):
    """(pos, op, arg, posclass, jclass); pos = index of the parameter, or ('+', n) for adds."""
    ops = []
    junk = [j for j in QUERY_JUNK if not d2 or j[0] in QUERY_JUNK_D2]
    for i, (k, v) in enumerate(query):
        for jid, jcls, _ in junk:
            ops.append((i, 'set', jid, k, jcls))
        ops.append((i, 'del', None, k, 'delete'))
        ops.append((i, 'dup', None, k, 'repeated'))
        ops.append((i, 'conflict', None, k, 'conflicting'))
        ops.append((i, 'conflict1st', None, k, 'conflicting-first'))
        if not d2:
            ops.append((i, 'noeq', None, k, 'no-equals-sign'))
            for tid, tcls, _ in tweaks(v):
                ops.append((i, 'tweak', tid, k, tcls))
            for kid, kcls, kf in KEY_TWEAKS:
                ops.append((i, 'key', kid, k, 'key:' + kcls))
        toks = tokens(v)
        if len(toks) > 1:
            for t in range(0, len(toks), 2):
                if toks[t] == '':
                    continue
                pc = '%s[%s]' % (k, tok_kind(toks[t]))
                for jid, jcls, _ in junk:
                    ops.append((i, 'tok', (t, jid), pc, jcls))
                if not d2:
                    for tid, tcls, _ in tweaks(toks[t]):
                        ops.append((i, 'toktweak', (t, tid), pc, tcls))
                    ops.append((i, 'tokdel', t, pc, 'delete-token'))
                    ops.append((i, 'tokdup', t, pc, 'repeated-token'))
    have = {k for k, _ in query}
    for n, (k, v) in enumerate(KNOWN_PARAMS):
        if k not in have and (not d2 or n < 14):
            ops.append((('+', n), 'add', None, '+' + k[:24], 'added-param'))
    if not d2:
        for n, (rid, rcls, _) in enumerate(RAW_QUERY_SUFFIX):
            ops.append((('~', n), 'raw', None, 'raw-suffix', rcls))
    return ops


KEY_TWEAKS = [
    ('upper', 'upper', lambda k: k.upper()), ('+_', 'suffix', lambda k: k + '_'),
    ('+1', 'suffix', lambda k: k + '1'), ('+_A', 'suffix', lambda k: k + '_A'),
    ('+nonascii', 'nonascii', lambda k: k + '%C3%A9'), ('+[]', 'brackets', lambda k: k + '[]'),
    ('+nul', 'ctrl', lambda k: k + '%00'), ('+badutf8', 'invalid-utf8', lambda k: k + '%FF'),
]


def enc_q(s):
    """Percent-encode a *python string value* for the query (keeps , : ! readable)."""
    return quote(s, safe=',:!_-.~')


def apply_query(query, ops):
    q = [[k, v, True] for k, v in query]       # key, raw value, has '='
    pos = [o[0] for o in ops]
    if len(set(map(repr, pos))) != len(pos):
        return None
    tail = []
    head = []
    suffix = ''
    dels = []
    for o in ops:
        i, op, arg = o[0], o[1], o[2]
        if op == 'add':
            k, v = KNOWN_PARAMS[i[1]]
            tail.append('%s=%s' % (quote(k, safe='_-'), v))
            continue
        if op == 'raw':
            suffix = RAW_QUERY_SUFFIX[i[1]][2]
            continue
        k, v = query[i]
        if op == 'set':
            q[i][1] = QUERY_JUNK_BY_ID[arg][2]
        elif op == 'del':
            dels.append(i)
        elif op == 'dup':
            tail.append('%s=%s' % (k, v))
        elif op == 'conflict':
            tail.append('%s=%s' % (k, 'x'))
        elif op == 'conflict1st':
            head.append('%s=%s' % (k, 'x'))
        elif op == 'noeq':
            q[i][2] = False
        elif op == 'tweak':
            q[i][1] = enc_q(tweak_of(v, arg)[2])
        elif op == 'key':
            q[i][0] = [f for kid, _, f in KEY_TWEAKS if kid == arg][0](k)
        elif op in ('tok', 'toktweak', 'tokdel', 'tokdup'):
            toks = tokens(v)
            if op == 'tok':
                toks[arg[0]] = QUERY_JUNK_BY_ID[arg[1]][2]
            elif op == 'toktweak':
                toks[arg[0]] = enc_q(tweak_of(toks[arg[0]], arg[1])[2])
            elif op == 'tokdel':
                toks[arg] = ''
            else:
                toks[arg] = toks[arg] + ',' + toks[arg]
            q[i][1] = ''.join(toks)
        else:
            raise ValueError(op)
    parts = [('%s=%s' % (k, v)) if eq else k for n, (k, v, eq) in enumerate(q)
             if n not in dels]
    return '&'.join(head + parts + tail) + suffix


def path_ops(segs, d2=False):
    """(pos, op, arg, posclass, jclass)."""
    ops = []
    junk = [j for j in PATH_JUNK if not d2 or j[0] in PATH_JUNK_D2]
    n = len(segs)
    for i, (s, kind) in enumerate(segs):
        if n == 1 and s == '':
            break                                  # the root route: no segment to mutate
        pc = 'lit:' + s if kind == 'lit' else '{%s}' % kind
        for jid, jcls, _ in junk:
            ops.append((i, 'set', jid, pc, jcls))
        ops.append((i, 'del', None, pc, 'delete-segment'))
        ops.append((i, 'dslash', None, pc, 'double-slash'))
        if not d2:
            for tid, tcls, _ in tweaks(s if kind != 'lit' else s.upper()):
                if kind == 'lit' and tid in ('unknown', 'unknown-std', 'long', 'prefix-only',
                                             'standard'):
                    continue
                ops.append((i, 'tweak', tid, pc, tcls))
            if i + 1 < n:
                ops.append((i, 'encslash', None, pc, 'encslash'))
                ops.append((i, 'encslash2', None, pc, 'encslash'))
            ops.append((i, 'dot', None, pc, 'dot'))
            ops.append((i, 'dotdot', None, pc, 'dot'))
    ops.append((n, 'tslash', None, 'end', 'trailing-slash'))
    ops.append((n, 'extra', None, 'end', 'extra-segment'))
    if not d2:
        ops.append((n, 'tslash2', None, 'end', 'trailing-slash'))
        ops.append((n, 'empty', None, 'whole', 'empty-path'))
        ops.append((n, 'noslash', None, 'whole', 'no-leading-slash'))
        ops.append((n, 'prefix', None, 'whole', 'mount-prefix'))
    return ops


def enc_p(s):
    return quote(s, safe='_-.~:{}')


def apply_path(segs, ops):
    pos = [o[0] for o in ops]
    if len(set(pos)) != len(pos):
        return None
    out = [[s, '/'] for s, _ in segs]          # text, the separator in front of it
    tail = ''
    whole = None
    dels = []
    for o in ops:
        i, op, arg = o[0], o[1], o[2]
        if op == 'set':
            out[i][0] = PATH_JUNK_BY_ID[arg][2]
        elif op == 'tweak':
            s, kind = segs[i]
            src = s if kind != 'lit' else s.upper()
            new = tweak_of(src, arg)[2]
            if kind == 'lit' and arg not in ('upper',):
                new = s + new[len(src):] if new.startswith(src) else new
            out[i][0] = enc_p(new)
        elif op == 'del':
            dels.append(i)
        elif op == 'dslash':
            out[i][1] = '//'
        elif op == 'encslash':
            out[i + 1][1] = '%2F'
        elif op == 'encslash2':
            out[i + 1][1] = '%252F'
        elif op == 'dot':
            out[i][1] = '/./'
        elif op == 'dotdot':
            out[i][1] = '/x/../'
        elif op == 'tslash':
            tail = '/'
        elif op == 'tslash2':
            tail = '//'
        elif op == 'extra':
            tail = '/extra'
        elif op == 'empty':
            whole = ''
        elif op == 'noslash':
            whole = 'NOSLASH'
        elif op == 'prefix':
            whole = 'PREFIX'
        else:
            raise ValueError(op)
    p = ''.join(sep + s for n, (s, sep) in enumerate(out) if n not in dels) + tail
    if whole == '':
        return ''
    if whole == 'NOSLASH':
        return p[1:]
    if whole == 'PREFIX':
        return '/placement' + p
    return p


# -- envelope: method, headers, raw body ----------------------------------------------------

METHODS = ['GET', 'PUT', 'POST', 'DELETE', 'HEAD', 'OPTIONS', 'PATCH', 'TRACE', 'CONNECT',
           'get', 'FOO', 'M' * 300, 'GE T', 'GÉT']
VERSIONS_OK = ['placement 1.%d' % n for n in range(0, LATEST[1] + 1)] + ['placement latest']
VERSIONS_D2 = ['placement 1.0', 'placement 1.22', 'placement 1.23', 'placement latest']
VERSIONS_BAD = [
    '', 'placement', 'placement ', 'placement LATEST', 'latest', '1.39', 'placement 1',
    'placement 1.', 'placement .1', 'placement 1.x', 'placement x.1', 'placement 1.39.0',
    'placement 1.-1', 'placement -1.0', 'placement 0.9', 'placement 1.40', 'placement 2.0',
    'placement 9.9', 'placement 1.99999999999999999999', 'placement 1.039', 'placement  1.39',
    'placement\t1.39', 'PLACEMENT 1.39', 'compute 2.1', 'compute 2.1, placement 1.39',
    'placement 1.39, placement 1.0', 'placement 1.0,placement 1.39', 'placement 1.39,',
    ',', 'placement １.39'.encode('utf-8').decode('latin-1'), 'placement 1.39\x00',
    'placement 1e1.3', 'placement +1.39', 'placement 1.+39', 'placement 0x1.39',
    'placement 1_0.3_9', 'placement 1.3_9', 'placement 1.39 extra', 'placement é',
    'placement 1.' + '9' * 5000, 'placement ' + '1' * 5000 + '.0',
]
VERSIONS_BAD_D2 = ['', 'placement 1.x', 'placement 1.40', 'compute 2.1', 'placement 1.39.0']
ACCEPTS = [None, '*/*', 'text/html', 'text/plain', 'application/xml', 'application/json;q=0',
           'application/json; q=0.5, text/html', 'application/*', 'text/*',
           'text/html, application/json', 'application/json, */*;q=0.1',
           'application/json;version=1', 'garbage', ';;;', '', 'a/b;q=x', 'é', 'x' * 5000,
           'application/json\x00']
ACCEPTS_D2 = [None, '*/*', 'text/html', 'application/xml', 'garbage']
CTYPES = [None, '', 'text/plain', 'application/xml', 'application/json; charset=utf-8',
          'application/json; charset=utf-16', 'application/json;charset=latin-1',
          'APPLICATION/JSON', 'application/jsonx', 'application/x-www-form-urlencoded',
          'multipart/form-data; boundary=x', 'x', '*/*', 'é', 'application/json, text/plain',
          'a' * 5000]
CTYPES_D2 = [None, 'text/plain', 'application/json; charset=utf-16', 'x']
TOKENS = ['user1:proj1', '', 'é', 'a:b:c', 'x' * 5000, ':', 'admin\x00']
ROLES = ['', ',', 'é', 'admin,,service', 'service', 'reader', 'ADMIN', 'x' * 5000]
EXTRA_HEADERS = [
    ('X-Openstack-Request-Id', 'req-' + UNKNOWN_UUID), ('X-Openstack-Request-Id', 'garbage'),
    ('X-Openstack-Request-Id', 'x' * 300), ('X-Openstack-Request-Id', 'é'),
    ('Range', 'bytes=0-1'), ('Range', 'garbage'), ('If-None-Match', '*'), ('If-Match', '"x"'),
    ('If-Modified-Since', 'garbage'), ('If-Modified-Since', 'Sat, 29 Oct 1994 19:43:31 GMT'),
    ('If-Unmodified-Since', 'Sat, 29 Oct 1994 19:43:31 GMT'),
    ('Expect', '100-continue'), ('Transfer-Encoding', 'chunked'),
    ('X-Forwarded-Proto', 'https'), ('X-Forwarded-For', 'garbage'), ('Forwarded', ';;;'),
    ('X-Forwarded-Prefix', '/x'), ('X-HTTP-Method-Override', 'DELETE'), ('Cookie', 'a=b; é'),
    ('Origin', 'http://evil.example'), ('Accept-Language', 'xx;q=z'),
    ('Accept-Charset', 'utf-16'), ('Accept-Encoding', 'gzip'),
    ('Host', 'é:99999'), ('Host', ''), ('X-Service-Token', 'x'),
    ('X-Identity-Status', 'Invalid'), ('X-User-Id', 'é'), ('X-Project-Id', 'x' * 300),
    ('X-Domain-Id', 'd'), ('X-Is-Admin-Project', 'maybe'), ('Openstack-System-Scope', 'é'),
    ('X-Openstack-Placement-Api-Version', '1.0'), ('X-Zz-Unknown', 'x' * 70000),
]
EXTRA_D2 = [1, 4, 11, 12]
BODILESS_CTYPES = ['application/json', 'text/plain']
CLEN_NOBODY = ['0', 'abc', '-1', '', '1.5', ' 0', str(I64)]
RAW_BODIES = [
    ('empty', 'body:empty', lambda b: b''),
    ('trunc-half', 'body:truncated', lambda b: b[:len(b) // 2]),
    ('trunc-1', 'body:truncated', lambda b: b[:-1]),
    ('not-json', 'body:not-json', lambda b: b'not json'),
    ('xml', 'body:not-json', lambda b: b'<?xml version="1.0"?><a/>'),
    ('form', 'body:not-json', lambda b: b'name=x&uuid=y'),
    ('binary', 'body:invalid-utf8', lambda b: b'\xff\xfe\x00\x01'),
    ('scalar-int', 'body:scalar', lambda b: b'1'),
    ('scalar-str', 'body:scalar', lambda b: b'"x"'),
    ('scalar-null', 'body:scalar', lambda b: b'null'),
    ('scalar-true', 'body:scalar', lambda b: b'true'),
    ('scalar-nan', 'body:scalar', lambda b: b'NaN'),
    ('other-container', 'body:other-container', lambda b: b'[]' if b[:1] == b'{' else b'{}'),
    ('empty-container', 'body:empty-container', lambda b: b'{}' if b[:1] == b'{' else b'[]'),
    ('wrapped', 'body:other-container', lambda b: b'[' + b + b']'),
    ('trailing', 'body:trailing-garbage', lambda b: b + b' x'),
    ('twice', 'body:trailing-garbage', lambda b: b + b + b''),
    ('bom', 'body:bom', lambda b: b'\xef\xbb\xbf' + b),
    ('utf16', 'body:utf16', lambda b: b.decode('utf-8').encode('utf-16')),
    ('utf32', 'body:utf16', lambda b: b.decode('utf-8').encode('utf-32')),
    ('leading-ws', 'body:whitespace', lambda b: b' \r\n\t' + b + b'\n'),
    ('nul-pad', 'body:invalid-utf8', lambda b: b + b'\x00'),
    ('deep-1e5', 'body:very-deep', lambda b: b'[' * 100000 + b']' * 100000),
    ('deep-obj-1e5', 'body:very-deep', lambda b: b'{"a":' * 100000 + b'1' + b'}' * 100000),
    ('digits-5000', 'body:huge-number', lambda b: b'{"a": ' + b'9' * 5000 + b'}'),
    ('long-string-1MB', 'body:huge', lambda b: b'{"name": "' + b'A' * (1 << 20) + b'"}'),
    ('many-keys', 'body:huge', lambda b: b'{' + b','.join(b'"k%d":1' % i for i in range(20000))
     + b'}'),
    ('comments', 'body:not-json', lambda b: b'/* c */' + b),
    ('single-quotes', 'body:not-json', lambda b: b.replace(b'"', b"'")),
]
RAW_BODIES_D2 = ['empty', 'trunc-half', 'not-json', 'scalar-null', 'other-container', 'utf16']
CLEN_LIES = [('0', 'clen:zero', lambda n: '0'), ('-1byte', 'clen:short', lambda n: str(n - 1)),
             ('half', 'clen:short', lambda n: str(n // 2)), ('abc', 'clen:not-int', lambda n: 'abc'),
             ('neg', 'clen:negative', lambda n: '-1'), ('blank', 'clen:empty', lambda n: ''),
             ('float', 'clen:not-int', lambda n: '%d.0' % n),
             ('padded', 'clen:exotic', lambda n: ' %d' % n),
             ('plus', 'clen:exotic', lambda n: '+%d' % n),
             ('underscore', 'clen:exotic', lambda n: ('%d' % n)[0] + '_' + ('%d' % n)[1:]
              if n > 9 else '0_%d' % n),
             ('missing', 'clen:missing', lambda n: None)]


def envelope_ops(base, d2=False):
    """(pos, op, arg, posclass, jclass); pos = the thing touched (one mutation per thing)."""
    ops = []
    has_body = base['body'] is not None
    if not d2:
        for m in METHODS:
            if m != base['method']:
                ops.append(('method', 'method', m, 'method',
                            m if m in METHODS[:9] else 'garbage-method'))
    else:
        for m in ('GET', 'PUT', 'POST', 'DELETE', 'HEAD', 'FOO'):
            if m != base['method']:
                ops.append(('method', 'method', m, 'method', m if m != 'FOO' else
                            'garbage-method'))
    cur = 'placement %s' % base['mv']
    ops.append(('h:version', 'hdel', 'OpenStack-API-Version', 'header:OpenStack-API-Version',
                'missing'))
    for v in (VERSIONS_D2 if d2 else VERSIONS_OK):
        if v != cur:
            ops.append(('h:version', 'hset', ('OpenStack-API-Version', v),
                        'header:OpenStack-API-Version', 'valid-version'))
    for n, v in enumerate(VERSIONS_BAD):
        if not d2 or v in VERSIONS_BAD_D2:
            ops.append(('h:version', 'hset', ('OpenStack-API-Version', v),
                        'header:OpenStack-API-Version', 'bad-version[%d]' % n))
    for n, v in enumerate(ACCEPTS):
        if d2 and v not in ACCEPTS_D2:
            continue
        if v is None:
            ops.append(('h:accept', 'hdel', 'Accept', 'header:Accept', 'missing'))
        else:
            ops.append(('h:accept', 'hset', ('Accept', v), 'header:Accept', 'accept[%d]' % n))
    if has_body:
        for n, v in enumerate(CTYPES):
            if d2 and v not in CTYPES_D2:
                continue
            if v is None:
                ops.append(('h:ctype', 'hdel', 'Content-Type', 'header:Content-Type', 'missing'))
            else:
                ops.append(('h:ctype', 'hset', ('Content-Type', v), 'header:Content-Type',
                            'ctype[%d]' % n))
        for rid, rcls, _ in RAW_BODIES:
            if not d2 or rid in RAW_BODIES_D2:
                ops.append(('body', 'rawbody', rid, 'body', rcls))
        for cid, ccls, _ in CLEN_LIES:
            if not d2 or cid in ('0', 'half', 'abc'):
                ops.append(('clen', 'clen', cid, 'header:Content-Length', ccls))
    else:
        for v in BODILESS_CTYPES:
            ops.append(('h:ctype', 'hset', ('Content-Type', v), 'header:Content-Type',
                        'ctype-without-body'))
        ops.append(('body', 'addbody', 'json', 'body', 'body-on-bodiless:json'))
        if not d2:
            ops.append(('body', 'addbody', 'junk', 'body', 'body-on-bodiless:junk'))
            for v in CLEN_NOBODY:
                ops.append(('clen', 'clenraw', v, 'header:Content-Length', 'clen-without-body'))
    if not d2:
        for n, v in enumerate(TOKENS):
            ops.append(('h:token', 'hset', ('X-Auth-Token', v), 'header:X-Auth-Token',
                        'token[%d]' % n))
        for n, v in enumerate(ROLES):
            ops.append(('h:roles', 'hset', ('X-Roles', v), 'header:X-Roles', 'roles[%d]' % n))
        ops.append(('h:roles', 'hdel', 'X-Roles', 'header:X-Roles', 'missing'))
    for n, (k, v) in enumerate(EXTRA_HEADERS):
        if not d2 or n in EXTRA_D2:
            ops.append(('h:' + k.lower(), 'hadd', n, 'header:' + k, 'extra[%d]' % n))
    return ops


def apply_envelope(req, ops):
    """Mutate a request dict (method, headers, body, clen) in place; None if not composable."""
    pos = [o[0] for o in ops]
    if len(set(pos)) != len(pos):
        return None
    hdr = [list(h) for h in req['headers']]

    def hset(name, value):
        for h in hdr:
            if h[0].lower() == name.lower():
                h[1] = value
                return
        hdr.append([name, value])

    def hdel(name):
        hdr[:] = [h for h in hdr if h[0].lower() != name.lower()]

    body = None if req['body'] is None else req['body'].encode('latin-1')
    clen = None
    for o in ops:
        op, arg = o[1], o[2]
        if op == 'method':
            req['method'] = arg
        elif op == 'hset':
            hset(arg[0], arg[1])
        elif op == 'hdel':
            hdel(arg)
        elif op == 'hadd':
            hset(*EXTRA_HEADERS[arg])
        elif op == 'rawbody':
            body = [f for rid, _, f in RAW_BODIES if rid == arg][0](body)
        elif op == 'addbody':
            body = b'{"name": "x"}' if arg == 'json' else b'\xff\x00junk'
        elif op in ('clen', 'clenraw'):
            clen = (op, arg)
    req['headers'] = hdr
    req['body'] = None if body is None else body.decode('latin-1')
    req.pop('clen', None)
    if clen is not None:
        if clen[0] == 'clenraw':
            req['clen'] = clen[1]
        else:
            n = len(body or b'')
            v = [f for cid, _, f in CLEN_LIES if cid == clen[1]][0](n)
            if v is None:
                req['nolen'] = True
            else:
                if INT_RE.match(v) and int(v) > n:
                    return None
                req['clen'] = v
    return req


# =========================================================================================
# 7. Cases
# =========================================================================================
# A case descriptor is (base index, state, part, ops); part in ('base', 'body', 'query', 'path',
# 'envelope'); ops = tuple of op tuples as produced by the *_ops functions.  Master and workers
# both derive the concrete request from the descriptor with build_case().

_CORPUS = None


def get_corpus():
    global _CORPUS
    if _CORPUS is None:
        _CORPUS = corpus()
        for b in _CORPUS:
            b['tree'] = None if b['body'] is None else tree_of(b['body'])
            b['segs'] = base_path(b)
    return _CORPUS


def part_ops(base, part, d2=False):
    if part == 'body':
        if base['tree'] is None:
            return []
        return body_ops(base['tree'], BODY_JUNK_D2 if d2 else None, d2)
    if part == 'query':
        return query_ops(base['query'], d2)
    if part == 'path':
        return path_ops(base['segs'], d2)
    if part == 'envelope':
        return envelope_ops(base, d2)
    raise ValueError(part)


PARTS = ('path', 'query', 'envelope', 'body')


def build_case(base, part, ops):
    """-> request dict, or None when the ops do not compose."""
    req = base_request(base)
    if part == 'base':
        return req
    if part == 'body':
        raw = apply_body(base['tree'], ops)
        if raw is None:
            return None
        req['body'] = raw.decode('latin-1')
    elif part == 'query':
        q = apply_query(base['query'], ops)
        if q is None:
            return None
        req['query'] = q or None
    elif part == 'path':
        p = apply_path(base['segs'], ops)
        if p is None:
            return None
        req['path'] = p
    elif part == 'envelope':
        return apply_envelope(req, ops)
    return req


def op_label(base, part, op):
    """(position class, operator, junk class) of one op."""
    if part == 'body':
        return ('body:' + pointer_class(base['tree'], op[0]), op[1], op[3])
    if part == 'query':
        return ('?' + op[3], op[1], op[4])
    if part == 'path':
        return ('path:' + op[3], op[1], op[4])
    return (op[3], op[1], op[4])


# =========================================================================================
# 8. Oracle (written from the property statement, errors.inc, version history 1.23, and the
#    microversion specification for the version header)
# =========================================================================================

def requested_version(headers):
    """The microversion the client asked for, by the OpenStack microversion header rules:
    'OpenStack-API-Version: placement X.Y' (comma separated list of 'service version' entries),
    absent header = minimum version; 'latest' = maximum.  None = not a well-formed / supported
    request for a placement version (then the service may answer 406/400 and no `code` is due)."""
    vals = [v for k, v in headers if k.lower() == 'openstack-api-version']
    if not vals:
        return (1, 0)
    found = None
    for entry in vals[0].split(','):
        bits = entry.strip().split(None, 1)
        if len(bits) == 2 and bits[0].lower() == 'placement':
            found = bits[1].strip()
    if found is None:
        return (1, 0)         # no entry for this service: the default (minimum) version applies
    if found == 'latest':
        return LATEST
    m = re.match(r'^([0-9]+)\.([0-9]+)$', found)
    if not m or len(found) > 20:
        return None
    v = (int(m.group(1)), int(m.group(2)))
    if v < (1, 0) or v > LATEST:
        return None
    return v


def json_preference(headers):
    """-> 'json' when the client's Accept header asks for JSON (alone or preferred over HTML /
    plain text), 'other' when it asks for something else, 'any' when it leaves the choice open
    in a way the documentation does not settle.  No Accept header (or */*) = JSON, as the API
    reference describes JSON as the only representation."""
    vals = [v for k, v in headers if k.lower() == 'accept']
    if not vals or vals[0].strip() in ('', '*/*'):
        return 'json'
    q_json = q_other = None
    for item in vals[0].split(','):
        bits = [b.strip() for b in item.split(';')]
        mt = bits[0].lower()
        q = 1.0
        for p in bits[1:]:
            if p.replace(' ', '').startswith('q='):
                try:
                    q = float(p.replace(' ', '')[2:])
                except ValueError:
                    return 'any'
            elif p:
                return 'any'          # media type parameters: specificity rules, not settled
        if not re.match(r'^[a-z0-9*.+-]+/[a-z0-9*.+-]+$', mt):
            return 'any'
        if mt == 'application/json':
            q_json = q if q_json is None else max(q_json, q)
        elif mt in ('*/*', 'application/*'):
            return 'any'
        else:
            q_other = q if q_other is None else max(q_other, q)
    if q_json is None or q_json == 0:
        return 'other'
    if q_other is None or q_other < q_json:
        return 'json'
    return 'any'


def judge(req, resp, changed):
    """-> list of (kind, message).  kind is the outcome part of the signature."""
    out = []
    st = resp.status
    if resp.escaped is not None or st == 599:
        return [('escaped', 'an exception escaped the WSGI pipeline: %s' %
                 resp.raw[:300].decode('utf-8', 'replace'))]
    if not isinstance(st, int) or st < 200 or st > 599:
        return [('malformed-response:status', 'status %r' % (st,))]
    if st >= 500:
        det = ''
        try:
            det = resp.json['errors'][0]['detail']
        except Exception:
            det = resp.raw[:300].decode('utf-8', 'replace')
        if 'Python int too large to convert to SQLite INTEGER' in det:
            # Integers beyond 2^63-1 are outside the property's quantifier ("bounds up to 64-bit
            # integers") and this failure is the SQLite driver's own range check -- MySQL and
            # PostgreSQL drivers pass such literals through. Substrate artefact: counted, not
            # judged (DESIGN.md section 8, "One DBMS").
            out.append(('note:sqlite-int-range', det[:200]))
        else:
            out.append(('status%d' % st, 'server error %d, detail=%r' % (st, det[:400])))
    ctype = (resp.headers.get('Content-Type') or resp.headers.get('content-type') or '')
    head = req['method'] == 'HEAD'
    if st in (204, 304) and resp.raw:
        out.append(('malformed-response:body-on-%d' % st, 'status %d with a body' % st))
    if resp.raw and ctype.startswith('application/json') and resp.json is None \
            and resp.raw.strip() != b'null':
        out.append(('malformed-response:json', 'content-type is JSON, body does not parse: %r'
                    % resp.raw[:200]))
    cl = resp.headers.get('Content-Length')
    if cl is not None and not head and (not cl.isdigit() or int(cl) != len(resp.raw)):
        out.append(('malformed-response:content-length',
                    'Content-Length %r but body has %d bytes' % (cl, len(resp.raw))))
    if 400 <= st < 500 and st != 401 and not head and json_preference(req['headers']) == 'json':
        problems = []
        if not ctype.startswith('application/json'):
            problems.append('content-type %r' % ctype)
        j = resp.json
        e = None
        if not isinstance(j, dict) or not isinstance(j.get('errors'), list) or not j['errors'] \
                or not isinstance(j['errors'][0], dict):
            problems.append('no errors[0] object')
        else:
            e = j['errors'][0]
            if e.get('status') != st:
                problems.append('errors[0].status=%r' % (e.get('status'),))
            for f in ('title', 'request_id'):
                if not isinstance(e.get(f), str) or not e.get(f):
                    problems.append('errors[0].%s=%r' % (f, e.get(f)))
            if not isinstance(e.get('detail'), str):
                problems.append('errors[0].detail=%r' % (e.get('detail'),))
            v = requested_version(req['headers'])
            if v is not None and v >= (1, 23) and st != 406:
                if not isinstance(e.get('code'), str) or not e.get('code'):
                    problems.append('errors[0].code=%r at microversion %d.%d' % (
                        (e.get('code'),) + v))
        if problems:
            fields = ','.join(sorted(p.split('=')[0].split(' ')[0] for p in problems))
            out.append(('error-format:%d:%s' % (st, fields),
                        '%d error body does not follow the errors guideline: %s; body=%r' % (
                            st, '; '.join(problems), resp.raw[:300])))
    if st in MALFORMED and changed:
        out.append(('state-changed:%d' % st,
                    'request rejected with %d changed stored state: %s' % (st, changed)))
    return out


# =========================================================================================
# 9. Worker
# =========================================================================================

class Worker(EnumWorker):
    def setup(self):
        # pool workers end through the pool's sentinel or SIGTERM, neither of which runs
        # atexit: remove the scratch database through multiprocessing's finalizer / a handler
        import os
        import shutil
        import signal
        from multiprocessing import util as mp_util
        scratch = self.h.dir
        mp_util.Finalize(None, shutil.rmtree, args=(scratch, True), exitpriority=0)

        def _term(*_):
            shutil.rmtree(scratch, True)
            os._exit(0)
        signal.signal(signal.SIGTERM, _term)
        self.corpus = get_corpus()
        self.images = {}
        self.cores = {}
        self.dumps = {}
        for st in STATES:
            self.restore(self.base)
            for r in state_requests(st):
                resp = wsgi_call(self.h.app, r)
                if resp.status >= 400:
                    raise RuntimeError('state %s: %s %s -> %s %s' % (
                        st, r['method'], r['path'], resp.status, resp.raw[:300]))
            self.images[st] = self.image()
            d = self.dump()
            self.dumps[st] = d
            self.cores[st] = d.core(gens=True, aux=False)
        self.cur = None
        self.dirty = True

    def execute(self, state, req):
        """-> (resp, changed: '' or text)."""
        if self.cur != state or self.dirty:
            self.restore(self.images[state])
            self.cur = state
        run = Run()
        self.probe.cur = run
        try:
            resp = wsgi_call(self.h.app, req)
        finally:
            self.probe.cur = None
        img = self.image()
        self.dirty = img != self.images[state]
        changed = ''
        if self.dirty and resp.status in MALFORMED:
            d = self.dump()
            if d.core(gens=True, aux=False) != self.cores[state]:
                changed = '; '.join(diff(self.dumps[state], d, gens=True, aux=False)) or 'core'
        return resp, changed

    def case(self, c):
        bi, state, part, ops = c
        base = self.corpus[bi]
        req = build_case(base, part, ops)
        if req is None:
            return None
        resp, changed = self.execute(state, req)
        v = judge(req, resp, changed)
        det = None
        if resp.status >= 500:
            try:
                det = resp.json['errors'][0]['detail'][:200]
            except Exception:
                det = None             # not a JSON body (the client asked for HTML / text)
        return (resp.status, v, det)


def make_worker(base_image, *args):
    return Worker(base_image, *args)


# =========================================================================================
# 10. Enumeration, aggregation, evidence
# =========================================================================================

def composable(part, a, b):
    pa, pb = a[0], b[0]
    if part == 'body':
        n = min(len(pa), len(pb))
        return pa[:n] != pb[:n]
    return pa != pb


def strip(op, part):
    """Drop the label fields of an op (keep what build_case needs)."""
    return tuple(op[:3]) if part != 'body' else tuple(op[:3])


def depth1_cases(corpus_, states):
    for st in states:
        for bi, b in enumerate(corpus_):
            yield (bi, st, 'base', ())
            for part in PARTS:
                for op in part_ops(b, part):
                    yield (bi, st, part, (op,))


def depth2_cases(corpus_, states, parts=PARTS):
    for st in states:
        for bi, b in enumerate(corpus_):
            for part in parts:
                ops = part_ops(b, part, d2=True)
                for i in range(len(ops)):
                    for j in range(i + 1, len(ops)):
                        if composable(part, ops[i], ops[j]):
                            yield (bi, st, part, (ops[i], ops[j]))


def route_of(base):
    return '%s %s' % (base['method'], base['route'])


def signature(base, state, part, ops, kind, msg, base_viol):
    """One defect = one signature: (outcome, method + route template, position class, junk
    class); a violation already shown by the unmutated request of the same state is filed
    under that base request; a state change is keyed by the tables that changed."""
    r = route_of(base)
    if kind.startswith('state-changed'):
        tables = '+'.join(sorted(set(re.findall(r'(\w+): -', msg)))) or 'rows'
        return '%s:%s:%s' % (kind, r, tables)
    if part == 'base':
        return '%s:%s:base[%s]@%s' % (kind, r, base['id'], state)
    labels = [op_label(base, part, op) for op in ops]
    if kind.startswith('error-format'):
        # the error body is produced by one formatter: key by operation + status + fields
        for (pc, opn, jc), op in zip(labels, ops):
            if opn == 'method':
                r = '%s %s' % (jc, base['route'])
        return '%s:%s' % (kind, r)
    if part == 'envelope':
        # a changed method is a different operation: name it in place of the base's method
        for (pc, opn, jc), op in zip(labels, ops):
            if opn == 'method':
                r = '%s %s' % (jc, base['route'])
        labels = [l for l in labels if l[1] != 'method'] or [('method', 'method', '')]
    pos = ' + '.join(jc if pc == 'body' else '%s:%s' % (pc, jc) if jc else pc
                     for pc, _, jc in labels)
    sep = '' if pos.startswith('?') else ' '
    return '%s:%s%s%s' % (kind, r, sep, pos)


def _drive(ctx, cases_iter, on_result, base_img, chunk=60, deadline=None):
    """Feed case descriptors lazily to the worker pool; results come back in case order."""
    import collections
    from vp.workers import Pool
    pool = Pool(ctx.workers, 'vp.props.c15', 'make_worker', (base_img,))
    pending = collections.deque()
    stopped = [False]

    def chunks():
        buf = []
        for c in cases_iter:
            if deadline is not None and ctx.elapsed() > deadline:
                stopped[0] = True
                break
            buf.append(c)
            if len(buf) >= chunk:
                pending.append(buf)
                yield buf
                buf = []
        if buf:
            pending.append(buf)
            yield buf
    try:
        for res in pool.map(chunks()):
            cs = pending.popleft()
            for c, r in zip(cs, res):
                on_result(c, r)
    finally:
        pool.close()
    return not stopped[0]


def run(ctx):
    import collections
    from vp.boot import make_base_image
    corp = get_corpus()
    base_img = make_base_image()
    ctx.level = 'exploration'
    budget = ctx.budget or (480 if ctx.quick else 1800)

    evaluations = [0]
    per_depth = collections.Counter()
    cells = set()
    status_by_route = collections.defaultdict(collections.Counter)
    status_by_part = collections.defaultdict(collections.Counter)
    status_by_state = collections.defaultdict(collections.Counter)
    klass = collections.Counter()
    samples = []
    base_viols = {}          # (bi, state) -> {(kind, detail)}
    single_viols = {}        # (bi, state, part, op[:3]) -> {kind: signature}
    notes = {}
    nviol = [0]

    def on_result(c, r):
        if r is None:
            return
        bi, st, part, ops = c
        base = corp[bi]
        status, viols, det = r
        evaluations[0] += 1
        per_depth[len(ops)] += 1
        route = route_of(base)
        status_by_route[route][str(status)] += 1
        status_by_part[part][str(status)] += 1
        status_by_state[st][str(status)] += 1
        if part != 'base':
            klass['2xx' if status < 300 else '3xx' if status < 400 else '4xx'
                  if status < 500 else '5xx'] += 1
            for op in ops:
                cells.add((route, op_label(base, part, op), status))
        if len(samples) < 12 and part != 'base' and evaluations[0] % 3001 == 7:
            rq = build_case(base, part, ops)
            samples.append({'base': base['id'], 'state': st, 'part': part,
                            'mutation': [list(op_label(base, part, op)) +
                                         [repr(op[2])[:80]] for op in ops],
                            'request': '%s %s%s' % (rq['method'], rq['path'][:200],
                                                    ('?' + rq['query'][:300]) if rq['query']
                                                    else ''),
                            'body': (rq['body'] or '')[:300], 'status': status})
        for kind, msg in viols:
            if kind.startswith('note:'):
                notes[kind] = notes.get(kind, 0) + 1
                continue
            nviol[0] += 1
            key = (kind, det)
            bv = base_viols.get((bi, st), ())
            if part == 'base':
                base_viols.setdefault((bi, st), set()).add(key)
                sig = signature(base, st, part, ops, kind, msg, None)
            elif not kind.startswith('state-changed') and (
                    key in bv or (det is None and any(k == kind for k, _ in bv))):
                sig = signature(base, st, 'base', (), kind, msg, None)
            else:
                sig = None
                if len(ops) == 2:
                    for op in ops:
                        s1 = single_viols.get((bi, st, part, repr(op[:3])), {}).get(kind)
                        if s1:
                            sig = s1
                            break
                if sig is None:
                    sig = signature(base, st, part, ops, kind, msg, None)
                if len(ops) == 1:
                    single_viols.setdefault((bi, st, part, repr(ops[0][:3])), {})[kind] = sig
            rq = build_case(base, part, ops)
            text = '[%s] %s %s%s (base %s, state %s, mutation %s): %s' % (
                sig, rq['method'], rq['path'][:120],
                ('?' + rq['query'][:200]) if rq['query'] else '', base['id'], st,
                [op_label(base, part, op) for op in ops], msg)
            ctx.violation(sig, text, {
                'state': st, 'setup': state_requests(st), 'request': rq, 'kind': kind,
                'status': status, 'base': base['id'],
                'mutation': [list(op_label(base, part, op)) for op in ops]})

    # ---- depth 1: every single mutation, every state --------------------------------------
    done1 = _drive(ctx, depth1_cases(corp, STATES), on_result, base_img,
                   deadline=budget * (0.9 if ctx.quick else 0.35))
    if not done1:
        ctx.cap('depth 1 stopped by the time budget after %d cases' % evaluations[0])
    # ---- depth 2: every pair inside one request part (thorough tier) ------------------------
    done2 = None
    d2_states = []
    if not ctx.quick and done1:
        d2_states = ['nested', 'flat']
        done2 = _drive(ctx, depth2_cases(corp, d2_states), on_result, base_img,
                       deadline=budget)
        if not done2:
            ctx.cap('depth 2 stopped by the time budget after %d pair cases (order: state '
                    'nested then flat; per base: path, query, envelope, body)' % per_depth[2])

    ctx.coverage.update({
        "notes_not_judged": notes,
        'evaluations': evaluations[0],
        'distinct_nontrivial': len(cells),
        'rule': 'deviation-bounded exhaustive enumeration: %d valid base requests (one per '
                'route x method x body/query format) x 3 database states x every single '
                'mutation (operators: junk value at every JSON node / query parameter / query '
                'token / path segment / header, delete, unknown key, duplicate key / item / '
                'parameter, conflicting parameter, key renames, grammar-aware tweaks of valid '
                'values, raw-body and content-length damage, every method, every microversion '
                'and a list of malformed version headers, Accept / Content-Type variants, '
                'extra headers); thorough adds every composable pair of (reduced-junk) '
                'mutations inside one request part. A case is non-trivial when it is a mutated '
                'request; distinct = distinct (route, method, position class, operator, junk '
                'class, status) cells' % len(corp),
        'samples': samples,
        'exhaustive': bool(done1 and (ctx.quick or done2)),
        'depth1_cases': per_depth[1] + per_depth[0], 'depth2_cases': per_depth[2],
        'depth1_complete': bool(done1), 'depth2_complete': done2,
        'depth2_states': d2_states,
        'base_requests': len(corp), 'states': len(STATES),
        'operations_covered': len({route_of(b) for b in corp}),
        'mutations_answered': dict(klass),
        'status_by_route': {k: dict(v) for k, v in sorted(status_by_route.items())},
        'status_by_part': {k: dict(v) for k, v in sorted(status_by_part.items())},
        'status_by_state': {k: dict(v) for k, v in sorted(status_by_state.items())},
        'violating_cases': nviol[0],
        'junk_set_body': [j[0] for j in BODY_JUNK], 'junk_set_query': [j[0] for j in QUERY_JUNK],
        'junk_set_path': [j[0] for j in PATH_JUNK],
        'depth2_junk': {'body': BODY_JUNK_D2, 'query': QUERY_JUNK_D2, 'path': PATH_JUNK_D2},
    })
    ctx.assumptions += [
        'requests are delivered as WSGI environs (percent-decoded PATH_INFO as latin-1, raw '
        'QUERY_STRING, headers as given); what a front-end HTTP server would reject before WSGI '
        'is not modelled',
        'a Content-Length larger than the body is an incomplete request (a server waits for the '
        'rest), not an input: only truthful, short, non-numeric, negative, empty and missing '
        'lengths are enumerated',
        'noauth2 test double supplies identity (token admin, roles admin+service); 401 responses '
        'are exempt from the error-format oracle as errors.inc says',
        'JSON error format is demanded when Accept is absent, */* or prefers application/json; '
        '`code` is demanded when the requested microversion is a supported version >= 1.23 and '
        'the status is not 406',
        'every reachable state is represented by three: empty, flat populated, nested + nested '
        'sharing provider',
        'pairs (depth 2) use a reduced junk set (one representative per class) and are taken '
        'inside one request part only',
        'SQLite stands in for the DBMS: integer-range and text-encoding failures are those of '
        'SQLite / pysqlite',
    ]
    if not ctx.new_violations():
        conc_part(ctx)


def conc_scenarios():
    """Two identical (or colliding) creation requests in flight together: whichever loses the
    race for the row is answered like a request that finds the row in place -- never with 500."""
    from vp import reqs
    from vp.http import R
    from vp.names import A, K, P
    four = {'total': 4}
    base = [reqs.mk_rp(1), reqs.mk_rp(2), reqs.put_invs(P(1), 0, {'VCPU': four})]
    pairs = [
        ('PUT /resource_classes/CUSTOM_N', reqs.put_class('CUSTOM_N'), reqs.put_class('CUSTOM_N')),
        ('POST /resource_classes CUSTOM_N', reqs.post_class('CUSTOM_N'), reqs.post_class('CUSTOM_N')),
        ('PUT vs POST resource class', reqs.put_class('CUSTOM_N'), reqs.post_class('CUSTOM_N')),
        ('PUT /traits/CUSTOM_N', reqs.put_trait('CUSTOM_N'), reqs.put_trait('CUSTOM_N')),
        ('POST provider, same uuid and name', reqs.mk_rp(3), reqs.mk_rp(3)),
        ('POST provider, same name only', reqs.mk_rp(3, name='same'), reqs.mk_rp(4, name='same')),
        ('POST child provider, same uuid', reqs.mk_rp(3, parent=P(1)), reqs.mk_rp(3, parent=P(2))),
        ('PUT aggregates, same new aggregate', reqs.put_aggs(P(1), 1, [A(1)]),
         reqs.put_aggs(P(2), 0, [A(1)])),
        ('PUT provider traits, same new custom trait absent', reqs.put_traits(P(1), 1, ['CUSTOM_N']),
         reqs.put_trait('CUSTOM_N')),
        ('POST inventory, same class', reqs.post_inv(P(2), 'VCPU', four),
         reqs.post_inv(P(2), 'VCPU', four)),
        ('PUT allocations, same new consumer, new project and user',
         reqs.put_alloc(K(1), {P(1): {'VCPU': 1}}, project='np', user='nu', ctype='NEWTYPE'),
         reqs.put_alloc(K(1), {P(1): {'VCPU': 1}}, project='np', user='nu', ctype='NEWTYPE')),
        ('PUT allocations, two consumers, same new project, user and type',
         reqs.put_alloc(K(1), {P(1): {'VCPU': 1}}, project='np', user='nu', ctype='NEWTYPE'),
         reqs.put_alloc(K(2), {P(1): {'VCPU': 1}}, project='np', user='nu', ctype='NEWTYPE')),
        ('rename to the same name', R('PUT', '/resource_providers/' + P(1), {'name': 'same'}),
         R('PUT', '/resource_providers/' + P(2), {'name': 'same'})),
        ('PUT class rename (1.6) vs create of the target name',
         reqs.put_class('CUSTOM_OLD', mv='1.6', body={'name': 'CUSTOM_N'}),
         reqs.put_class('CUSTOM_N')),
    ]
    out = []
    for name, a, b in pairs:
        a, b = dict(a), dict(b)
        a['tag'], b['tag'] = name + ' [1]', name + ' [2]'
        setup = base + ([reqs.post_class('CUSTOM_OLD')] if 'rename (1.6)' in name else [])
        out.append({'name': name, 'setup': setup, 'requests': [a, b], 'bound': None,
                    'max_exec': 6000})
    return out


def conc_part(ctx):
    from vp import explore_conc
    sc = conc_scenarios()
    tot = explore_conc.run_scenarios(ctx, 'C15', sc)
    ctx.coverage['concurrent_part'] = {
        'scenarios': tot['scenarios'], 'scenarios_planned': len(sc), 'states': tot['states'],
        'transitions': tot['transitions'], 'schedules_executed': tot['executions'],
        'outcome_vectors': tot['outcome_vectors'],
        'rule': 'ALL interleavings (top-level-transaction granularity) of %d pairs of colliding '
                'creation requests (same class, trait, provider uuid / name, aggregate, consumer, '
                'project / user / consumer type); judged: no request is answered 5xx, the loser '
                'gets an answer it also gets in a serial order, the stored rows equal a serial '
                'order' % len(sc)}


def replay(ctx, data):
    if data.get('engine') == 'conc':
        from vp import explore_conc
        return explore_conc.replay(ctx, data)
    from vp.boot import Harness
    from vp.snapshot import Dump
    h = Harness()
    for r in data['setup']:
        resp = wsgi_call(h.app, r)
        if resp.status >= 400:
            from vp.check import HarnessError
            raise HarnessError('replay setup failed: %s %s -> %s' % (
                r['method'], r['path'], resp.status))
    before = Dump(h.dbfile)
    req = data['request']
    resp = wsgi_call(h.app, req)
    after = Dump(h.dbfile)
    changed = ''
    if resp.status in MALFORMED and \
            before.core(gens=True, aux=False) != after.core(gens=True, aux=False):
        changed = '; '.join(diff(before, after, gens=True, aux=False)) or 'core'
    viols = judge(req, resp, changed)
    line = '%s %s%s -> %s %s' % (req['method'], req['path'][:200],
                                 ('?' + req['query'][:300]) if req.get('query') else '',
                                 resp.status, resp.raw[:400].decode('utf-8', 'replace'))
    want = data.get('kind')
    hit = [v for v in viols if v[0] == want] or viols
    if hit:
        return False, '%s\n  %s' % (line, '; '.join('%s: %s' % v for v in hit))
    return True, line
