"""C10 -- generations move forward on every change and only then (E-seq monitor)."""
from vp import explore_seq, reqs, world
from vp.http import R
from vp.names import K, P
from vp.props.c01 import fill


class Spec(object):
    def __init__(self, nconsumers=2):
        self.consumers = tuple(K(i) for i in range(1, nconsumers + 1))

    def starts(self):
        four = {'total': 4}
        pop = [reqs.mk_rp(1), reqs.mk_rp(2), reqs.post_class(world.CUSTOM_CLASS),
               reqs.put_trait(world.CUSTOM_TRAIT),
               reqs.put_invs(P(1), 0, {'VCPU': four, world.CUSTOM_CLASS: four}),
               reqs.put_invs(P(2), 0, {'VCPU': four}),
               reqs.put_traits(P(1), 1, [world.CUSTOM_TRAIT]),
               reqs.put_aggs(P(1), 2, [world.A(1)])]
        used = pop + [reqs.put_alloc(K(1), {P(1): {'VCPU': 1}}),
                      reqs.put_alloc(K(2), {P(1): {world.CUSTOM_CLASS: 1}, P(2): {'VCPU': 1}})]
        return [('populated', pop), ('in-use', used)]

    def canon(self, d):
        return d.key(gens=False)

    def alphabet(self, d):
        out = world.general_alphabet(
            d, consumers=self.consumers, provider_ops=False, renames=True, old_aggs=True,
            noop_writes=True, stale=True, single_inv=True)
        # reads must not move generations
        for rp in (P(1), P(2)):
            for sub in ('', '/inventories', '/traits', '/aggregates', '/usages', '/allocations'):
                out.append(R('GET', '/resource_providers/%s%s' % (rp, sub), tag='GET rp' + sub))
        for k in self.consumers:
            out.append(R('GET', '/allocations/' + k, tag='GET allocations'))
        out.append(R('GET', '/allocation_candidates', query='resources=VCPU:1',
                     tag='GET allocation_candidates'))
        out.append(R('GET', '/resource_providers', query='resources=VCPU:1', tag='GET rps'))
        return out

    def on_transition(self, pre, req, resp, run, post):
        return world.oracle_c10(pre, req, resp, post)

    def on_state(self, d, h, call):
        # the generation echoed by reads equals the stored one
        v = []
        for rp in d.providers:
            want = d.providers[rp]['gen']
            for sub, key in (('', 'generation'), ('/inventories', 'resource_provider_generation'),
                             ('/traits', 'resource_provider_generation'),
                             ('/aggregates', 'resource_provider_generation'),
                             ('/usages', 'resource_provider_generation'),
                             ('/allocations', 'resource_provider_generation')):
                resp, _ = call(R('GET', '/resource_providers/%s%s' % (rp, sub)))
                got = (resp.json or {}).get(key)
                if got != want:
                    v.append(('c10-read-generation:%s' % (sub or '/'),
                              'GET /resource_providers/%s%s reports generation %s, stored %s' % (
                                  rp, sub, got, want)))
        for k, c in d.consumers.items():
            resp, _ = call(R('GET', '/allocations/' + k))
            got = (resp.json or {}).get('consumer_generation')
            if got != c['gen']:
                v.append(('c10-read-consumer-generation',
                          'GET /allocations/%s reports consumer_generation %s, stored %s' % (
                              k, got, c['gen'])))
        return v


def run(ctx):
    if ctx.quick:
        depth = 2
        ctx.budget = ctx.budget or 170
    else:
        depth = 3
        ctx.budget = ctx.budget or 1800
    st = explore_seq.explore(ctx, 'vp.props.c10', 'Spec', (2,), max_depth=depth)
    fill(ctx, st, 'BFS over an alphabet containing every write path (POST/PUT/DELETE inventory and '
         'inventories, PUT/DELETE provider traits incl. no-op and clearing, PUT aggregates at 1.18 '
         'and 1.19, PUT/POST/DELETE allocations incl. bulk, move, clear, reshaper, provider '
         'rename/re-parent), their rejected (stale generation) variants and all read routes; '
         'oracle on every transition from the concrete pre/post generation columns')


def replay(ctx, data):
    return explore_seq.replay(ctx, data)
