"""C10 -- generations move forward on every change and only then (E-seq monitor)."""
from vp import explore_seq, reqs, world
from vp.http import R
from vp.names import K, P
from vp.props.c01 import fill


class Spec(object):
    def __init__(self, nconsumers=2):
        self.consumers = tuple(K(i) for i in range(1, nconsumers + 1))

    def starts(self):
        four = {'total': 4}
        pop = [reqs.mk_rp(1), reqs.mk_rp(2), reqs.post_class(world.CUSTOM_CLASS),
               reqs.put_trait(world.CUSTOM_TRAIT),
               reqs.put_invs(P(1), 0, {'VCPU': four, world.CUSTOM_CLASS: four}),
               reqs.put_invs(P(2), 0, {'VCPU': four}),
               reqs.put_traits(P(1), 1, [world.CUSTOM_TRAIT]),
               reqs.put_aggs(P(1), 2, [world.A(1)])]
        used = pop + [reqs.put_alloc(K(1), {P(1): {'VCPU': 1}}),
                      reqs.put_alloc(K(2), {P(1): {world.CUSTOM_CLASS: 1}, P(2): {'VCPU': 1}})]
        # providers never written to (generation 0: the falsy boundary value of every counter)
        fresh = pop[:4]
        return [('populated', pop), ('in-use', used), ('fresh', fresh)]

    def canon(self, d):
        return d.key(gens=False)

    def alphabet(self, d):
        out = world.general_alphabet(
            d, consumers=self.consumers, provider_ops=False, renames=True, old_aggs=True,
            noop_writes=True, stale=True, single_inv=True)
        # reads must not move generations
        for rp in (P(1), P(2)):
            for sub in ('', '/inventories', '/traits', '/aggregates', '/usages', '/allocations'):
                out.append(R('GET', '/resource_providers/%s%s' % (rp, sub), tag='GET rp' + sub))
        for k in self.consumers:
            out.append(R('GET', '/allocations/' + k, tag='GET allocations'))
        out.append(R('GET', '/allocation_candidates', query='resources=VCPU:1',
                     tag='GET allocation_candidates'))
        out.append(R('GET', '/resource_providers', query='resources=VCPU:1', tag='GET rps'))
        return out

    def on_transition(self, pre, req, resp, run, post):
        return world.oracle_c10(pre, req, resp, post)

    def on_state(self, d, h, call):
        # the generation echoed by reads equals the stored one
        v = []
        for rp in d.providers:
            want = d.providers[rp]['gen']
            for sub, key in (('', 'generation'), ('/inventories', 'resource_provider_generation'),
                             ('/traits', 'resource_provider_generation'),
                             ('/aggregates', 'resource_provider_generation'),
                             ('/usages', 'resource_provider_generation'),
                             ('/allocations', 'resource_provider_generation')):
                resp, _ = call(R('GET', '/resource_providers/%s%s' % (rp, sub)))
                got = (resp.json or {}).get(key)
                if got != want:
                    v.append(('c10-read-generation:%s' % (sub or '/'),
                              'GET /resource_providers/%s%s reports generation %s, stored %s' % (
                                  rp, sub, got, want)))
        for k, c in d.consumers.items():
            resp, _ = call(R('GET', '/allocations/' + k))
            got = (resp.json or {}).get('consumer_generation')
            if got != c['gen']:
                v.append(('c10-read-consumer-generation',
                          'GET /allocations/%s reports consumer_generation %s, stored %s' % (
                              k, got, c['gen'])))
        return v


def run(ctx):
    if ctx.quick:
        depth = 2
        ctx.budget = ctx.budget or 170
    else:
        depth = 3
        ctx.budget = ctx.budget or 1800
    st = explore_seq.explore(ctx, 'vp.props.c10', 'Spec', (2,), max_depth=depth)
    fill(ctx, st, 'BFS over an alphabet containing every write path (POST/PUT/DELETE inventory and '
         'inventories, PUT/DELETE provider traits incl. no-op and clearing, PUT aggregates at 1.18 '
         'and 1.19, PUT/POST/DELETE allocations incl. bulk, move, clear, reshaper, provider '
         'rename/re-parent), their rejected (stale generation) variants and all read routes; '
         'oracle on every transition from the concrete pre/post generation columns')
    if not ctx.new_violations():
        conc_part(ctx)


def conc_scenarios():
    """Writers that bump a generation racing each other and racing the writes that must leave it
    alone (PUT /resource_providers/{uuid} carries and changes no generation)."""
    from vp import reqs
    from vp.http import R
    from vp.names import A, K, P
    four = {'total': 4}
    base = [reqs.mk_rp(1), reqs.mk_rp(2), reqs.put_invs(P(1), 0, {'VCPU': four}),
            reqs.put_invs(P(2), 0, {'VCPU': four}), reqs.put_alloc(K(1), {P(1): {'VCPU': 1}})]
    # generations after base: P1 = 2, P2 = 1, K1 = 1
    o = {
        'rename P1': R('PUT', '/resource_providers/' + P(1), {'name': 'p1-renamed'}, mv='1.39'),
        're-parent P1 under P2': R('PUT', '/resource_providers/' + P(1),
                                   {'name': 'p1', 'parent_provider_uuid': P(2)}, mv='1.39'),
        'PUT inventories P1': reqs.put_invs(P(1), 2, {'VCPU': {'total': 8}}),
        'PUT traits P1': reqs.put_traits(P(1), 2, ['HW_CPU_X86_AVX']),
        'PUT aggregates P1': reqs.put_aggs(P(1), 2, [A(1)]),
        'PUT aggregates P1 @1.18': reqs.put_aggs(P(1), None, [A(2)], mv='1.18'),
        'DELETE traits P1': reqs.del_traits(P(1)),
        'POST inventory P1': reqs.post_inv(P(1), 'DISK_GB', {'total': 10}),
        'PUT allocations K2 on P1': reqs.put_alloc(K(2), {P(1): {'VCPU': 1}}),
        'PUT allocations K1 on P1+P2': reqs.put_alloc(K(1), {P(1): {'VCPU': 1},
                                                             P(2): {'VCPU': 1}}, cgen=1),
        'PUT allocations K1 clear': reqs.put_alloc(K(1), {}, cgen=1),
        'DELETE allocations K1': reqs.del_alloc(K(1)),
        # bumps the provider a two-provider allocation write visits second (its server-side
        # retries are then all doomed: the write must end as an error, not as a success that
        # moved no generation)
        'PUT inventories P2': reqs.put_invs(P(2), 1, {'VCPU': {'total': 6}}),
    }
    names = list(o)
    pairs = [(a, b) for a in ('rename P1', 're-parent P1 under P2') for b in names[2:-1]]
    pairs += [('PUT inventories P2', 'PUT allocations K1 on P1+P2')]
    pairs += [('PUT inventories P1', 'PUT allocations K2 on P1'),
              ('PUT traits P1', 'PUT aggregates P1 @1.18'),
              ('PUT allocations K2 on P1', 'PUT allocations K1 on P1+P2'),
              ('PUT allocations K1 on P1+P2', 'PUT allocations K1 clear'),
              ('PUT allocations K1 on P1+P2', 'DELETE allocations K1'),
              ('DELETE traits P1', 'POST inventory P1'),
              ('PUT aggregates P1 @1.18', 'PUT aggregates P1')]
    out = []
    for a, b in pairs:
        ra, rb = dict(o[a]), dict(o[b])
        ra['tag'], rb['tag'] = a, b
        out.append({'name': '%s || %s' % (a, b), 'setup': base, 'requests': [ra, rb],
                    'bound': None, 'max_exec': 4000})
    return out


def conc_part(ctx):
    from vp import explore_conc
    sc = conc_scenarios()
    tot = explore_conc.run_scenarios(ctx, 'C10', sc)
    ctx.coverage['concurrent_part'] = {
        'scenarios': tot['scenarios'], 'scenarios_planned': len(sc), 'states': tot['states'],
        'transitions': tot['transitions'], 'schedules_executed': tot['executions'],
        'outcome_vectors': tot['outcome_vectors'],
        'rule': 'ALL interleavings (top-level-transaction granularity) of %d pairs: provider '
                'rename / re-parent (no generation) against every generation-bumping write, and '
                'bumping writes against each other; judged on every complete schedule: the '
                'generation of each provider and consumer record never decreases between the '
                'begins of successive transactions and the final rows, a reported generation has '
                'been reached, and the successful requests equal one of their serial orders '
                '(generations included)' % len(sc)}
    ctx.coverage['states'] += tot['states']
    ctx.coverage['transitions'] += tot['transitions']
    ctx.coverage['traces_validated_against_impl'] += tot['executions']


def replay(ctx, data):
    if data.get('engine') == 'conc':
        from vp import explore_conc
        return explore_conc.replay(ctx, data)
    return explore_seq.replay(ctx, data)
