"""C01 -- allocation writes never over-commit inventory or break unit constraints (E-seq)."""
from vp import explore_seq, reqs, world
from vp.names import K, P
from vp.world import V1, V2, V3, V4, cgen_of, consumer_allocs, gen_of

BIG = {'total': 8}


class Spec(object):
    def __init__(self, nconsumers=2, extra_class=False):
        self.consumers = [K(i) for i in range(1, nconsumers + 1)]
        self.extra_class = extra_class

    def starts(self):
        base = [reqs.mk_rp(1), reqs.mk_rp(2, parent=P(1))]
        full = base + [
            reqs.put_invs(P(1), 0, {'VCPU': V1}), reqs.put_invs(P(2), 0, {'VCPU': V4}),
            reqs.put_alloc(K(1), {P(1): {'VCPU': 2}})]
        over = base + [
            reqs.put_invs(P(1), 0, {'VCPU': {'total': 4}}),
            reqs.put_alloc(K(1), {P(1): {'VCPU': 2}}),
            reqs.put_alloc(K(2), {P(1): {'VCPU': 2}}),
            reqs.put_invs(P(1), 3, {'VCPU': V4})]
        return [('no-inventory', base), ('nearly-full', full), ('over-committed', over)]

    def canon(self, d):
        return d.key(gens=False)

    def alphabet(self, d):
        out = []
        out += world.inv_ops(d, [P(1), P(2)], classes=('VCPU',), deletes=False)
        for rp in (P(1), P(2)):
            if (rp, 'VCPU') in d.inventories:
                out.append(reqs.del_inv(rp, 'VCPU', tag='DELETE inventory'))
        for k in self.consumers:
            cg = cgen_of(d, k)
            for a in (1, 2, 3, 4):
                out.append(reqs.put_alloc(k, {P(1): {'VCPU': a}}, cgen=cg,
                                          tag='PUT alloc P1:%d' % a))
            out.append(reqs.put_alloc(k, {P(1): {'VCPU': 2}}, mv='1.12', tag='PUT alloc@1.12 P1:2'))
            out.append(reqs.put_alloc(k, {P(1): {'VCPU': 1}}, mv='1.8', tag='PUT alloc@1.8 P1:1'))
            out.append(reqs.put_alloc(k, {P(1): {'VCPU': 1}, P(2): {'VCPU': 1}}, cgen=cg,
                                      tag='PUT alloc P1:1+P2:1'))
            out.append(reqs.put_alloc(k, {P(1): {'VCPU': 2}, P(2): {'VCPU': 2}}, cgen=cg,
                                      tag='PUT alloc P1:2+P2:2'))
            out.append(reqs.put_alloc(k, {P(2): {'VCPU': 2}}, cgen=cg, tag='PUT alloc P2:2'))
            if k in d.consumers:
                out.append(reqs.put_alloc(k, {}, cgen=cg, mv='1.28', tag='PUT alloc clear'))
                out.append(reqs.del_alloc(k, tag='DELETE alloc'))
        k1, k2 = self.consumers[0], self.consumers[1]

        def ent(k, allocs):
            return {'allocs': allocs, 'cgen': cgen_of(d, k)}
        for a, b in ((1, 1), (2, 1), (2, 2)):
            out.append(reqs.post_allocs({k1: ent(k1, {P(1): {'VCPU': a}}),
                                         k2: ent(k2, {P(1): {'VCPU': b}})},
                                        tag='POST allocs K1:%d K2:%d same inventory' % (a, b)))
        for a in (2, 3):
            if k1 in d.consumers:
                out.append(reqs.post_allocs({k1: ent(k1, {}), k2: ent(k2, {P(1): {'VCPU': a}})},
                                            tag='POST allocs K1 clears K2 grows %d' % a))
        if len(self.consumers) > 2:
            k3 = self.consumers[2]
            out.append(reqs.post_allocs({k1: ent(k1, {P(1): {'VCPU': 1}}),
                                         k2: ent(k2, {P(1): {'VCPU': 1}}),
                                         k3: ent(k3, {P(1): {'VCPU': 1}, P(2): {'VCPU': 1}})},
                                        tag='POST allocs three consumers'))
        # reshaper: move VCPU and its allocations from P1 to P2
        if (P(1), 'VCPU') in d.inventories:
            moved = {}
            for k in self.consumers:
                al = consumer_allocs(d, k)
                if P(1) in al and 'VCPU' in al[P(1)]:
                    new = {rp: dict(r) for rp, r in al.items() if rp != P(1)}
                    rest = {rc: a for rc, a in al[P(1)].items() if rc != 'VCPU'}
                    if rest:
                        new[P(1)] = rest
                    new.setdefault(P(2), {})
                    new[P(2)]['VCPU'] = new[P(2)].get('VCPU', 0) + al[P(1)]['VCPU']
                    moved[k] = ent(k, new)
            cur = world._strip(d.inventories[(P(1), 'VCPU')])
            for name, inv in (('bigger', BIG), ('equal', cur), ('smaller', V4)):
                out.append(reqs.reshaper(
                    {P(1): (gen_of(d, P(1)), {}), P(2): (gen_of(d, P(2)), {'VCPU': inv})},
                    moved, tag='reshaper move P1->P2 %s' % name))
        return out

    def on_transition(self, pre, req, resp, run, post):
        return world.oracle_c01(pre, req, resp, post)

    def on_state(self, d, h, call):
        return []


def run(ctx):
    if ctx.quick:
        depth, args = 4, (2,)
        ctx.budget = ctx.budget or 150
    else:
        depth, args = 5, (3,)
        ctx.budget = ctx.budget or 1500
    st = explore_seq.explore(ctx, 'vp.props.c01', 'Spec', args, max_depth=depth)
    fill(ctx, st, 'BFS over request histories from three start states (no inventory / nearly full '
         '/ over-committed by a shrink); alphabet: inventory replacement to three variants where '
         'every constraint binds, PUT/POST/DELETE allocations at 1.8/1.12/1.28/1.39 for %d '
         'consumers on one or two providers, several consumers on one inventory, clear-while-grow, '
         'reshaper moving usage; oracle: capacity/unit transition predicate on raw rows in IEEE '
         'double arithmetic' % args[0])


def fill(ctx, st, rule):
    ctx.level = 'model_checking'
    ctx.coverage.update({
        'states': st['states'], 'transitions': st['transitions'],
        'traces_validated_against_impl': st['transitions'],
        'samples': st['samples'] or [['(no sample)']],
        'fixpoint': st['fixpoint'], 'depth_completed': st['depth_completed'],
        'exhaustive': bool(st['fixpoint']) or not ctx.caps,
        'state_changing_transitions': st['state_changing_transitions'],
        'rejected_transitions': st['rejected_transitions'],
        'outcomes_per_alphabet_entry': st['outcomes'],
        'never_collided': st['never_collided'],
        'determinism_reruns': st['determinism_reruns'],
        'rule': rule,
    })
    ctx.assumptions += ['depth-bounded (not a fixpoint) unless fixpoint=true',
                        'SQLite with foreign keys enforced stands in for the DBMS']


def replay(ctx, data):
    return explore_seq.replay(ctx, data)
