"""C20 -- limit and randomisation only select from the full candidate set (E-enum + enumerated RNG).

For (state, query) pairs of the C03 scope with 1 <= M <= 6 results: every limit 1..M+1 and both
settings of [placement]randomize_allocation_candidates. Randomness is not sampled: the module
attribute placement.objects.research_context.random is replaced by a random.Random subclass whose
_randbelow answers are scripted, and EVERY answer sequence is enumerated depth-first (radices are
discovered while running), i.e. every outcome random.sample / random.shuffle can produce.
"""
import collections
import json
import random

from vp import acq, scope
from vp.enum import EnumWorker, run_cases
from vp.http import R
from vp.oracles_ac import parse_response, to_qs

MV = '1.39'
FULL_RNG_MAX_M = 4          # all scripts for every limit when M <= 4 (<= 64 per query)


class Scripted(random.Random):
    """random.Random whose integer draws are read from a script; records the radix of each draw."""

    def __init__(self):
        super().__init__(0)
        self.script = []
        self.pos = 0
        self.radices = []

    def load(self, script):
        self.script = list(script)
        self.pos = 0
        self.radices = []

    def _randbelow(self, n):
        self.radices.append(n)
        v = self.script[self.pos] if self.pos < len(self.script) else 0
        self.pos += 1
        if v >= n:
            raise AssertionError('script value %d out of radix %d' % (v, n))
        return v

    def random(self):
        raise AssertionError('float draw not scripted')

    def getrandbits(self, k):
        raise AssertionError('getrandbits not scripted')


def key(ar):
    return json.dumps(ar, sort_keys=True)


class Worker(EnumWorker):
    def setup(self):
        from placement.objects import research_context
        self.rng = Scripted()
        research_context.random = self.rng
        self.cur = None

    def get(self, q, limit=None, randomize=False, script=()):
        self.h.conf.set_override('randomize_allocation_candidates', randomize, group='placement')
        self.rng.load(script)
        qs = to_qs(q)
        if limit is not None:
            qs += '&limit=%d' % limit
        resp, _ = self.call(R('GET', '/allocation_candidates', query=qs, mv=q['mv']))
        self.h.conf.set_override('randomize_allocation_candidates', False, group='placement')
        return resp, list(self.rng.radices)

    def all_scripts(self, q, limit, randomize):
        """Yield (script, response) for every answer sequence the RNG can give."""
        stack = [()]
        n = 0
        while stack:
            script = stack.pop()
            resp, radices = self.get(q, limit, randomize, script)
            n += 1
            yield script, resp
            # extend: positions beyond the script took value 0; branch on each of them
            for i in range(len(script), len(radices)):
                for v in range(1, radices[i]):
                    stack.append(tuple(script) + (0,) * (i - len(script)) + (v,))

    def case(self, c):
        name, setup, qs = c['state'], c['setup'], c['queries']
        if self.cur != name:
            self.img = self.build(setup)
            self.cur = name
        else:
            self.restore(self.img)
        out = []
        for label, q in qs:
            viol = []
            resp, _ = self.get(q)
            if resp.status != 200:
                out.append({'label': label, 'M': -1, 'runs': 1, 'viol': [('status', str(
                    resp.status))]})
                continue
            full = resp.json['allocation_requests']
            M = len(full)
            if M < 1 or M > 6:
                out.append({'label': label, 'M': M, 'runs': 1, 'viol': []})
                continue
            vq = tuple(int(x) for x in q['mv'].split('.'))
            U = [key(a) for a in full]
            Uset = set(U)
            runs = 1
            # randomize off: an identical request returns the identical ordered list
            resp2, _ = self.get(q)
            runs += 1
            if [key(a) for a in resp2.json['allocation_requests']] != U:
                viol.append(('unstable-order', 'two identical requests on unchanged state '
                             'returned different ordered lists'))
            outcomes = collections.Counter()
            for randomize in (False, True):
                limits = list(range(1, M + 2))
                for limit in limits:
                    exhaustive_rng = M <= FULL_RNG_MAX_M or limit in (1, 2)
                    if randomize and not exhaustive_rng:
                        continue
                    gen = self.all_scripts(q, limit, randomize) if randomize else \
                        [((), self.get(q, limit, False)[0])]
                    for script, r in gen:
                        runs += 1
                        if r.status != 200:
                            viol.append(('status', 'limit=%d randomize=%s -> %s' % (
                                limit, randomize, r.status)))
                            continue
                        got = [key(a) for a in r.json['allocation_requests']]
                        outcomes[(randomize, limit, tuple(sorted(got)))] += 1
                        want_n = min(limit, M)
                        # below 1.34 the response does not show mappings, so two requests that
                        # differ only in their mappings look alike: compare as multisets there
                        dup_ok = vq < (1, 34)
                        cg, cu = collections.Counter(got), collections.Counter(U)
                        if len(got) != want_n or (not dup_ok and len(set(got)) != len(got)) or \
                                any(cg[k] > cu[k] for k in cg if k in cu):
                            viol.append(('count', 'limit=%d randomize=%s script=%s returned %d '
                                         'requests (%d distinct), expected exactly %d distinct' % (
                                             limit, randomize, list(script), len(got),
                                             len(set(got)), want_n)))
                        if not set(got) <= Uset:
                            viol.append(('not-a-member', 'limit=%d randomize=%s script=%s '
                                         'returned a request that is not among the %d unlimited '
                                         'ones' % (limit, randomize, list(script), M)))
                        if not randomize and got != U[:want_n]:
                            viol.append(('not-a-prefix', 'limit=%d without randomisation is not '
                                         'the first %d of the unlimited list' % (limit, want_n)))
                        summ = r.json.get('provider_summaries', {})
                        named = set()
                        for a in r.json['allocation_requests']:
                            named |= set(a['allocations'])
                        missing = named - set(summ)
                        if missing:
                            viol.append(('summary-missing', 'limit=%d randomize=%s: providers %s '
                                         'named by the returned requests have no summary' % (
                                             limit, randomize, sorted(x[-2:] for x in missing))))
            # randomize on, no limit: every permutation reachable, each a permutation of U
            if M <= FULL_RNG_MAX_M:
                perms = set()
                for script, r in self.all_scripts(q, None, True):
                    runs += 1
                    got = [key(a) for a in r.json['allocation_requests']]
                    if sorted(got) != sorted(U):
                        viol.append(('shuffle-not-permutation', 'randomised unlimited result is '
                                     'not a permutation of the unlimited set (script %s)' % list(
                                         script)))
                    perms.add(tuple(got))
                outcomes[('perms', len(perms))] += 1
            out.append({'label': label, 'M': M, 'runs': runs, 'viol': viol[:5],
                        'distinct_outcomes': len(outcomes), 'qs': to_qs(q) if viol else None})
        return {'state': name, 'results': out}


def make_worker(base_image, *args):
    return Worker(base_image, *args)


def plan(ctx):
    cases = []
    tiers = [(0, 1)] if ctx.quick else [(0, 1), (1, 0)]
    seen = set()
    for kstate, kq in tiers:
      for name, desc, setup in scope.states(kstate):
        if name in seen:
            continue
        seen.add(name)
        # 1.28: not nested-aware (summaries pruned differently); 1.16: limit was introduced
        qs = acq.queries(desc, kq, (MV,), ('1.28', '1.16'))
        for i in range(0, len(qs), 50):
            cases.append({'state': name, 'setup': setup, 'queries': qs[i:i + 50],
                          'base': desc['base']})
    return cases


def run(ctx):
    from vp.props.c03 import features
    ctx.budget = ctx.budget or (300 if ctx.quick else 2400)
    cases = plan(ctx)
    ctx.level = 'exploration'
    evaluations = 0
    judged = 0
    sizes = collections.Counter()
    nontrivial = set()
    samples = []
    for c, res in zip(cases, run_cases(ctx, 'vp.props.c20', cases, chunk=1)):
        for r in res['results']:
            evaluations += r['runs']
            sizes[str(r['M']) if r['M'] <= 6 else '>6'] += 1
            if 1 <= r['M'] <= 6:
                judged += 1
                nontrivial.add((c['state'], r['label']))
                if len(samples) < 4 and r['M'] >= 3:
                    samples.append({'state': c['state'], 'query': r['label'], 'M': r['M'],
                                    'requests_executed': r['runs'],
                                    'distinct_outcomes': r.get('distinct_outcomes')})
            base, feats = features(r['label'])
            for kind, msg in r['viol']:
                sig = 'c20-%s|%s|%s' % (kind, c['base'], base)
                q = dict([x for x in c['queries'] if x[0] == r['label']][0][1])
                ctx.violation(sig, '%s: state %s, query %s (%s): %s' % (
                    kind, c['state'], r['label'], r.get('qs'), msg),
                    {'engine': 'enum', 'state': c['state'], 'setup': c['setup'],
                     'label': r['label'], 'query': q})
        if ctx.out_of_time():
            ctx.cap('budget exhausted after %d requests' % evaluations)
            break
    ctx.coverage.update({
        'evaluations': evaluations,
        'distinct_nontrivial': len(nontrivial),
        'queries_judged': judged,
        'result_size_histogram': dict(sizes),
        'rule': 'scope states x queries of the C03 grammar (%s) with 1 <= M <= 6 results x limit '
                '1..M+1 x randomize off/on; with randomisation on, every answer sequence of the '
                'random source is enumerated (all limits for M <= %d; limits 1 and 2 for M in '
                '5..6), plus every shuffle of the unlimited result for M <= %d; evaluations = HTTP '
                'requests executed; non-trivial = (state, query) pairs judged' % (
                    'quick: 6 base states x (base queries + every single deviation)' if ctx.quick
                    else 'thorough: (0 state deltas, <=1 query deviation), (1, 0)',
                    FULL_RNG_MAX_M, FULL_RNG_MAX_M),
        'samples': samples or [{'note': 'none'}],
        'exhaustive': not ctx.caps,
    })
    ctx.assumptions += ['the only random source of the candidate search is the module attribute '
                        'research_context.random (float draws and getrandbits would raise)',
                        'for M in 5..6 the random source is enumerated completely only for limits '
                        '1 and 2 (the shuffle of >= 5 results has >= 120 outcomes per query)']


def replay(ctx, data):
    from vp.boot import Harness
    from vp.probe import Probe
    h = Harness()
    w = Worker.__new__(Worker)
    w.h = h
    w.base = h.base_image
    w.probe = Probe(h)
    w.setup()
    res = w.case({'state': data['state'], 'setup': data['setup'],
                  'queries': [(data['label'], data['query'])]})
    kind = data['signature'].split('|')[0][4:]
    for r in res['results']:
        for k, msg in r['viol']:
            if k == kind:
                return False, 'reproduced: %s' % msg
    return True, 'no %s violation' % kind
