"""C03 -- allocation candidates are exactly the combinations the request describes (E-enum).

Scope-enumerated states (vp.scope: 7 base topologies x decoration deltas) x a query grammar
(vp.acq: 17 base queries x every set of <= k filter deviations), every (state, query) executed on
the real service and compared, as a set of (allocations, mappings), with the brute-force oracle
vp.oracles_ac.ac_oracle computed from the raw rows.
"""
import collections
import re

from vp import acq, scope
from vp.enum import EnumWorker, run_cases
from vp.http import R
from vp.oracles_ac import World, ac_oracle, fmt, parse_response, to_qs


def features(label):
    """query label -> sorted tuple of deviation kinds (values stripped)"""
    base, _, rest = label.partition('+')
    rest = rest.rsplit('@', 1)[0] if rest else ''
    kinds = set()
    for part in (rest.split('+') if rest else []):
        f = part.split(':')
        if f[0].startswith('g'):
            who = 'u' if f[0] == 'g_' else 's'
            kind = f[1]
            if kind == 'member_of':
                kind = 'member_of!' if f[2].startswith('!') else 'member_of'
            if kind == 'required' and len(f) > 2 and f[2] == 'in':
                kind = 'required-in'
            kinds.add('%s.%s' % (who, kind))
        else:
            kinds.add(f[0] + ('!' if len(f) > 1 and f[1].startswith('!') else ''))
    return base.split('@')[0], tuple(sorted(kinds))


def classify_missing(w, q, cand):
    """Root-cause patterns of the two recorded findings (see known_findings.json), evaluated on
    the omitted combination itself; anything else keeps its generic signature."""
    allocs, mappings = cand
    mp = dict(mappings)
    g = q['groups'].get('')
    if g is None or '' not in mp:
        return None
    mine = set(mp[''])
    everyone = set()
    for ps in mp.values():
        everyone |= set(ps)
    if not mine:
        return None
    if g.get('in_tree') and g['in_tree'] in w.top:
        # the suffixless group is confined to one tree, all its resources come from sharing
        # providers there, and some other group is satisfied outside that tree: the combination
        # exists only through an anchor other than the in_tree tree
        t = w.top[g['in_tree']]
        if mine <= w.sharing and any(w.top[p] != t for p in everyone):
            return 'unsuffixed-in_tree-satisfied-by-sharing-provider-of-another-tree'
    fa = set(g.get('forbidden_aggs') or [])
    if fa and (mine & w.sharing) and not any(fa & w.aggs.get(p, set()) for p in mine):
        # no provider of the suffixless group is in a forbidden aggregate itself, but every tree
        # through which the combination can be anchored has its root in one
        anchors = [r for r in w.roots if everyone <= w.usable(r)]
        if anchors and all(fa & w.aggs.get(r, set()) for r in anchors):
            return 'unsuffixed-forbidden-aggregate-held-by-anchor-root-only'
    return None


class Worker(EnumWorker):
    def setup(self):
        self.cur = None

    def case(self, c):
        name, setup, qs = c['state'], c['setup'], c['queries']
        if self.cur != name:
            self.img = self.build(setup)
            self.cur = name
            self.d = self.dump()
            self.w = World(self.d)
        else:
            self.restore(self.img)
        out = []
        for label, q in qs:
            mv = q['mv']
            resp, run = self.call(R('GET', '/allocation_candidates', query=to_qs(q), mv=mv))
            nsql = len(run.stmts)
            anchors = any('AS anchor' in s[0] or 'anchor' in s[0].lower() for s in run.stmts)
            if resp.status != 200:
                out.append({'label': label, 'status': resp.status, 'viol': [
                    ('status', 'answered %s %s' % (resp.status, resp.raw[:200]))],
                    'n': 0, 'exp': 0})
                continue
            got = parse_response(resp.json, mv)
            exp = ac_oracle(self.d, q)
            v = []
            ver = tuple(int(x) for x in mv.split('.'))
            if ver >= (1, 34):
                gset = set(got)
                if len(gset) != len(got):
                    v.append(('duplicate', 'response lists a combination twice'))
                eset = exp
            else:
                gset = {a for a, _ in got}
                eset = {a for a, _ in exp}
            missing = eset - gset
            spurious = gset - eset
            pattern = None
            if missing and ver >= (1, 34):
                pats = {classify_missing(self.w, q, m) for m in missing}
                if len(pats) == 1 and None not in pats:
                    pattern = pats.pop()
            if missing:
                v.append(('missing:' + pattern if pattern else 'missing',
                          'omitted %d: %s' % (len(missing), fmt(
                    [(m, None) if not isinstance(m, tuple) else m for m in list(missing)[:3]]
                    if ver >= (1, 34) else [(m, None) for m in list(missing)[:3]]))))
            if spurious:
                v.append(('spurious', 'returned %d that violate the rules: %s' % (len(spurious), fmt(
                    list(spurious)[:3] if ver >= (1, 34) else
                    [(m, None) for m in list(spurious)[:3]]))))
            out.append({'label': label, 'status': 200, 'viol': v, 'n': len(gset),
                        'exp': len(eset), 'anchors': anchors, 'nsql': nsql,
                        'qs': to_qs(q) if v else None})
        return {'state': name, 'results': out}


def make_worker(base_image, *args):
    return Worker(base_image, *args)


def plan(ctx):
    """[(state name, desc, setup, k_query, versions)]"""
    tiers = []
    if ctx.quick:
        tiers.append((0, False, 1, ('1.39',), ('1.36', '1.34', '1.33', '1.29', '1.28', '1.25',
                                                 '1.17', '1.12', '1.10')))
        tiers.append((1, False, 0, ('1.39', '1.28'), ()))
    else:
        tiers.append((0, False, 2, ('1.39',), tuple(acq.VERSIONS)))
        tiers.append((1, False, 1, ('1.39',), ('1.28',)))
        tiers.append((2, True, 0, ('1.39',), ()))
    cases = []
    seen = set()
    for kstate, spp, kq, versions, extra in tiers:
        for name, desc, setup in scope.states(kstate, same_provider_pairs=spp):
            if name in seen:
                continue
            seen.add(name)
            # single deviations also below 1.29 (one provider per tree), where the suffixless
            # group takes other code paths
            qs = acq.queries(desc, kq, versions, extra, versions_k1=('1.28', '1.24') if kstate == 0
                             else ())
            # chunk the queries of a state so that states spread over workers
            for i in range(0, len(qs), 400):
                cases.append({'state': name, 'setup': setup, 'queries': qs[i:i + 400],
                              'base': desc['base'],
                              'deltas': [d[0] for d in desc['deltas']]})
    return cases


def run(ctx):
    ctx.budget = ctx.budget or (300 if ctx.quick else 4200)
    cases = plan(ctx)
    ctx.level = 'exploration'
    evaluations = 0
    nontrivial = set()
    sizes = collections.Counter()
    by_feature = collections.Counter()
    paths = collections.Counter()
    samples = []
    nstates = set()
    for c, res in zip(cases, run_cases(ctx, 'vp.props.c03', cases, chunk=1)):
        nstates.add(c['state'])
        for r in res['results']:
            evaluations += 1
            base, feats = features(r['label'])
            by_feature[feats] += 1
            if r['status'] == 200:
                sizes[min(r['n'], 10)] += 1
                if r['n'] > 0:
                    nontrivial.add((c['state'], r['label'], r['n']))
                paths['anchors-query' if r.get('anchors') else 'no-anchors-query'] += 1
            if len(samples) < 4 and r['status'] == 200 and r['n'] >= 2:
                samples.append({'state': c['state'], 'query': r['label'], 'candidates': r['n']})
            for kind, msg in r['viol']:
                if kind.startswith('missing:'):
                    sig = 'c03-' + kind
                else:
                    sig = 'c03-%s|%s|%s|%s' % (kind, c['base'], base, ','.join(feats) or 'plain')
                ctx.violation(sig, '%s: state %s, query %s (%s): %s' % (
                    kind, c['state'], r['label'], r.get('qs'), msg),
                    {'engine': 'enum', 'state': c['state'], 'setup': c['setup'],
                     'label': r['label'],
                     'query': dict([q for q in c['queries'] if q[0] == r['label']][0][1])})
        if ctx.out_of_time():
            ctx.cap('budget exhausted after %d evaluations' % evaluations)
            break
    ctx.coverage.update({
        'evaluations': evaluations,
        'distinct_nontrivial': len(nontrivial),
        'rule': 'states = scope enumerator (7 base topologies incl. nested, sharing, nested + '
                'sharing through a non-root member, a nested sharing provider) x decoration '
                'deltas; queries = 17 base queries (unsuffixed 1-3 classes, 1-3 suffixed groups, a class repeated in neighbouring and non-neighbouring groups, same_subtree given twice, '
                'mixed, overlapping classes) x every set of <= k deviations (required / forbidden '
                '/ in: traits, member_of / in: / ! aggregates, in_tree, amounts, group_policy, '
                'same_subtree subsets, a resourceless group, root_required) at the versions where '
                'semantics change; joint deviation bound: %s; a case is non-trivial when the '
                'result is non-empty; distinct = distinct (state, query, result size)' % (
                    'quick: (0 state deltas, <=2 query deviations), (1, 0)' if ctx.quick else
                    'thorough: (0, <=2), (1, <=1), (2 on one provider, 0)'),
        'samples': samples or [{'note': 'none'}],
        'states': len(nstates),
        'result_size_histogram': {str(k): v for k, v in sorted(sizes.items())},
        'code_paths': dict(paths),
        'query_feature_sets': len(by_feature),
        'exhaustive': not ctx.caps,
    })
    if not ctx.new_violations():
        conc_part(ctx)
    ctx.assumptions += ['oracle transcribes the statement of C03 literally over the raw rows',
                        'scope: <= 7 providers, <= 3 trees, depth <= 3, 4 classes, 4 traits, 3 '
                        'aggregates']


def conc_part(ctx):
    from vp import readcons
    from vp.names import A as AA, P as PP
    q = {
        'VCPU:1,DISK_GB:3': 'resources=VCPU:1,DISK_GB:3',
        'VCPU:1,DISK_GB:3 in_tree=P1': 'resources=VCPU:1,DISK_GB:3&in_tree=' + PP(1),
        'VCPU:2': 'resources=VCPU:2',
        'VCPU:1 required=T1': 'resources=VCPU:1&required=' + readcons.T1,
        'VCPU:1 member_of=A1': 'resources=VCPU:1&member_of=' + AA(1),
        'granular VCPU:1 + DISK_GB:3': 'resources1=VCPU:1&resources2=DISK_GB:3&group_policy=none',
        'granular same_subtree': 'resources1=VCPU:1&resources2=DISK_GB:3&group_policy=none&'
                                 'same_subtree=1,2',
    }
    pairs = [('VCPU:1,DISK_GB:3', 'PUT P4 under P1'), ('VCPU:1,DISK_GB:3', 'PUT P3 to top'),
             ('VCPU:1,DISK_GB:3', 'reshaper: VCPU leaves P1, DISK_GB arrives on P2'),
             ('VCPU:1,DISK_GB:3 in_tree=P1', 'PUT P1 under P2'),
             ('VCPU:2', 'PUT allocations K1 (3 VCPU of P1)'),
             ('VCPU:1 required=T1', 'PUT traits P1 (T1 -> T2)'),
             ('VCPU:1 member_of=A1', 'PUT aggregates P1 (A1 -> A2)'),
             ('granular VCPU:1 + DISK_GB:3', 'PUT P4 under P1'),
             ('granular same_subtree', 'PUT P3 to top'),
             ('granular same_subtree', 'PUT inventories P2 (+DISK_GB)')]
    flat_pairs = [('VCPU:1,DISK_GB:3', 'PUT P4 under P1'),
                  ('granular VCPU:1 + DISK_GB:3', 'PUT P4 under P1')]
    triples = [('VCPU:1,DISK_GB:3', 'PUT P4 under P1', 'PUT inventories P1 (DISK_GB only)'),
               ('VCPU:1,DISK_GB:3', 'PUT P3 to top', 'PUT inventories P2 (+DISK_GB)')]
    # the first child provider ever is created and stocked while the search is being served
    flat_triples = [('VCPU:1,DISK_GB:3', 'POST P5 under P1', 'PUT inventories P5 (VCPU + DISK_GB)'),
                    ('granular VCPU:1 + DISK_GB:3', 'POST P5 under P1',
                     'PUT inventories P5 (VCPU + DISK_GB)')]
    sc = readcons.scenarios('/allocation_candidates', q, pairs, triples, flat_pairs, flat_triples)
    readcons.run_part(ctx, 'C03', sc)


def replay(ctx, data):
    if data.get('engine') == 'conc':
        from vp import explore_conc
        return explore_conc.replay(ctx, data)
    from vp.boot import Harness
    from vp.http import call
    from vp.snapshot import Dump
    h = Harness()
    for req in data['setup']:
        call(h.app, req)
    d = Dump(h.dbfile)
    q = data['query']
    resp = call(h.app, R('GET', '/allocation_candidates', query=to_qs(q), mv=q['mv']))
    if resp.status != 200:
        return (False, 'reproduced: status %s' % resp.status) if data['signature'].startswith(
            'c03-status') else (True, 'status %s' % resp.status)
    got = parse_response(resp.json, q['mv'])
    exp = ac_oracle(d, q)
    ver = tuple(int(x) for x in q['mv'].split('.'))
    gset = set(got) if ver >= (1, 34) else {a for a, _ in got}
    eset = exp if ver >= (1, 34) else {a for a, _ in exp}
    kind = data['signature'].split('|')[0][4:].split(':')[0]
    bad = {'missing': eset - gset, 'spurious': gset - eset,
           'duplicate': set() if len(set(got)) == len(got) else {1}}.get(kind, set())
    if bad:
        return False, 'reproduced: %s %s' % (kind, list(bad)[:2])
    return True, 'response equals the oracle (%d candidates)' % len(gset)
