"""C16 -- every operation is authenticated and authorised before it has any effect.

E-enum over a closed table.  Enumerated completely:

    every (route, method) of placement.handler.ROUTE_DECLARATIONS, as one valid request each
      (+ request variants that every caller sees rejected as 404/405/406/415: unknown resource,
       undeclared method, unacceptable Accept, wrong Content-Type, microversion 1.0;
       + GET /usages for the *other* project)
  x every caller class (no credentials; forged identity headers without a token; token without
    roles; reader / member of the project that owns the data and of another project; member
    without implied reader; admin (three flavours); service; admin and service with a
    system-scoped token)
  x every policy configuration {default} + {r := "!" for every registered rule r}
    (thorough: r := v for every registered rule r and v in "!", "@", "role:reader",
     "rule:project_reader_api", "rule:admin_api", "not role:service")

Every request runs through the real WSGI pipeline on a restored image of one populated state.

Oracle (independent of placement's enforcer): the rule <-> operation map, the documented default
check strings and the scope are written down below from the policy documentation and the
property statement; the effective check string (default or override) is evaluated by the small
evaluator `Policy` for the caller's roles / project / token scope.
"""
import hashlib
import json
import re

from vp import enum as vpenum
from vp.boot import make_base_image
from vp.check import HarnessError
from vp.http import R
from vp.names import A, K, P, UNKNOWN_UUID

MV = '1.39'
PROJ_A, PROJ_B = 'canary-project-a', 'canary-project-b'
USER_A, USER_B = 'canary-user-a', 'canary-user-b'
P1, P2, P3 = P(1), P(2), P(3)
K1, K2 = K(1), K(2)
NAMES = {P1: 'canary-rp-one', P2: 'canary-rp-two', P3: 'canary-rp-three'}
RC_USED, RC_FREE = 'CUSTOM_CANARY_RC', 'CUSTOM_CANARY_UNUSED_RC'
TR_USED, TR_FREE = 'CUSTOM_CANARY_TRAIT', 'CUSTOM_CANARY_UNUSED_TRAIT'
CANARIES = [P1, P2, P3, K1, K2, A(1), PROJ_A, PROJ_B, USER_A, USER_B, RC_USED, RC_FREE,
            TR_USED, TR_FREE] + sorted(NAMES.values())

# ---------------------------------------------------------------------------------------------
# The documented contract (written from the policy reference: name, default, operations; the
# release note "policy-defaults-refresh": every API policy is scoped to project, system scoped
# users get 403, the scope is not overridable, reshaper is service only; and the property text).
# ---------------------------------------------------------------------------------------------
AOS = 'rule:admin_or_service_api'
DOC_BASE = {
    'admin_api': 'role:admin',
    'service_api': 'role:service',
    'admin_or_service_api': 'role:admin or role:service',
    'project_reader_api': 'role:reader and project_id:%(project_id)s',
    'admin_or_project_reader_or_service_api':
        'role:admin or rule:project_reader_api or role:service',
}
RP = '/resource_providers'
RPU = RP + '/{uuid}'
DOC_OPS = {   # rule name -> (documented default, [(method, route)])
    'placement:resource_providers:list': (AOS, [('GET', RP)]),
    'placement:resource_providers:create': (AOS, [('POST', RP)]),
    'placement:resource_providers:show': (AOS, [('GET', RPU)]),
    'placement:resource_providers:update': (AOS, [('PUT', RPU)]),
    'placement:resource_providers:delete': (AOS, [('DELETE', RPU)]),
    'placement:resource_classes:list': (AOS, [('GET', '/resource_classes')]),
    'placement:resource_classes:create': (AOS, [('POST', '/resource_classes')]),
    'placement:resource_classes:show': (AOS, [('GET', '/resource_classes/{name}')]),
    'placement:resource_classes:update': (AOS, [('PUT', '/resource_classes/{name}')]),
    'placement:resource_classes:delete': (AOS, [('DELETE', '/resource_classes/{name}')]),
    'placement:resource_providers:inventories:list': (AOS, [('GET', RPU + '/inventories')]),
    'placement:resource_providers:inventories:create': (AOS, [('POST', RPU + '/inventories')]),
    'placement:resource_providers:inventories:show':
        (AOS, [('GET', RPU + '/inventories/{resource_class}')]),
    'placement:resource_providers:inventories:update':
        (AOS, [('PUT', RPU + '/inventories'), ('PUT', RPU + '/inventories/{resource_class}')]),
    'placement:resource_providers:inventories:delete':
        (AOS, [('DELETE', RPU + '/inventories'),
               ('DELETE', RPU + '/inventories/{resource_class}')]),
    'placement:resource_providers:aggregates:list': (AOS, [('GET', RPU + '/aggregates')]),
    'placement:resource_providers:aggregates:update': (AOS, [('PUT', RPU + '/aggregates')]),
    'placement:resource_providers:usages': (AOS, [('GET', RPU + '/usages')]),
    'placement:usages': ('rule:admin_or_project_reader_or_service_api', [('GET', '/usages')]),
    'placement:traits:list': (AOS, [('GET', '/traits')]),
    'placement:traits:show': (AOS, [('GET', '/traits/{name}')]),
    'placement:traits:update': (AOS, [('PUT', '/traits/{name}')]),
    'placement:traits:delete': (AOS, [('DELETE', '/traits/{name}')]),
    'placement:resource_providers:traits:list': (AOS, [('GET', RPU + '/traits')]),
    'placement:resource_providers:traits:update': (AOS, [('PUT', RPU + '/traits')]),
    'placement:resource_providers:traits:delete': (AOS, [('DELETE', RPU + '/traits')]),
    'placement:allocations:manage': (AOS, [('POST', '/allocations')]),
    'placement:allocations:list': (AOS, [('GET', '/allocations/{consumer_uuid}')]),
    'placement:allocations:update': (AOS, [('PUT', '/allocations/{consumer_uuid}')]),
    'placement:allocations:delete': (AOS, [('DELETE', '/allocations/{consumer_uuid}')]),
    'placement:resource_providers:allocations:list': (AOS, [('GET', RPU + '/allocations')]),
    'placement:allocation_candidates:list': (AOS, [('GET', '/allocation_candidates')]),
    'placement:reshaper:reshape': ('rule:service_api', [('POST', '/reshaper')]),
}
ROOT_ROUTES = ('/', '')
OP_RULE = {}
for _r, (_d, _ops) in DOC_OPS.items():
    for _o in _ops:
        OP_RULE[_o] = _r
ALL_RULES = sorted(DOC_BASE) + sorted(DOC_OPS)
DOC_DEFAULTS = dict(DOC_BASE)
DOC_DEFAULTS.update({r: d for r, (d, _) in DOC_OPS.items()})

# Success status documented in api-ref for the valid request used, at microversion 1.39.
DOC_SUCCESS = {
    ('GET', '/'): 200, ('GET', ''): 200,
    ('GET', RP): 200, ('POST', RP): 200, ('GET', RPU): 200, ('PUT', RPU): 200,
    ('DELETE', RPU): 204,
    ('GET', '/resource_classes'): 200, ('POST', '/resource_classes'): 201,
    ('GET', '/resource_classes/{name}'): 200, ('PUT', '/resource_classes/{name}'): 201,
    ('DELETE', '/resource_classes/{name}'): 204,
    ('GET', RPU + '/inventories'): 200, ('POST', RPU + '/inventories'): 201,
    ('PUT', RPU + '/inventories'): 200, ('DELETE', RPU + '/inventories'): 204,
    ('GET', RPU + '/inventories/{resource_class}'): 200,
    ('PUT', RPU + '/inventories/{resource_class}'): 200,
    ('DELETE', RPU + '/inventories/{resource_class}'): 204,
    ('GET', RPU + '/usages'): 200, ('GET', RPU + '/aggregates'): 200,
    ('PUT', RPU + '/aggregates'): 200, ('GET', RPU + '/allocations'): 200,
    ('POST', '/allocations'): 204, ('GET', '/allocations/{consumer_uuid}'): 200,
    ('PUT', '/allocations/{consumer_uuid}'): 204, ('DELETE', '/allocations/{consumer_uuid}'): 204,
    ('GET', '/allocation_candidates'): 200, ('GET', '/traits'): 200,
    ('GET', '/traits/{name}'): 204, ('PUT', '/traits/{name}'): 201,
    ('DELETE', '/traits/{name}'): 204, ('GET', RPU + '/traits'): 200,
    ('PUT', RPU + '/traits'): 200, ('DELETE', RPU + '/traits'): 204,
    ('GET', '/usages'): 200, ('POST', '/reshaper'): 204,
}
EXEMPT = (404, 405, 406, 415)

# ---------------------------------------------------------------------------------------------
# Caller classes.  noauth2 test double: token "user:project", roles via X-Roles (flattened, as
# keystone delivers implied roles), system scope via OpenStack-System-Scope.
# ---------------------------------------------------------------------------------------------
FORGED = {'X-User-Id': USER_A, 'X-Project-Id': PROJ_A, 'X-Tenant-Id': PROJ_A,
          'X-Roles': 'admin,service', 'X-Identity-Status': 'Confirmed', 'X-User': USER_A}


def _c(user, project, roles, system=None):
    d = {'token': '%s:%s' % (user, project), 'roles': roles}
    if system:
        d['system'] = system
    return d


CALLERS = [   # (name, caller dict for vp.http, roles, project, system-scoped)
    ('none', None, None, None, False),
    ('forged_headers', None, None, None, False),
    ('no_roles', _c(USER_A, PROJ_A, ''), (), PROJ_A, False),
    ('reader_own', _c(USER_A, PROJ_A, 'reader'), ('reader',), PROJ_A, False),
    ('reader_other', _c(USER_B, PROJ_B, 'reader'), ('reader',), PROJ_B, False),
    ('member_own', _c(USER_A, PROJ_A, 'member,reader'), ('member', 'reader'), PROJ_A, False),
    ('member_other', _c(USER_B, PROJ_B, 'member,reader'), ('member', 'reader'), PROJ_B, False),
    ('member_only', _c(USER_A, PROJ_A, 'member'), ('member',), PROJ_A, False),
    ('admin', _c(USER_A, PROJ_A, 'admin,member,reader'), ('admin', 'member', 'reader'), PROJ_A,
     False),
    ('admin_third_project', _c('ops', 'ops-project', 'admin'), ('admin',), 'ops-project', False),
    ('admin_token', {'token': 'admin', 'roles': None}, ('admin',), 'admin', False),
    ('service', _c('nova', 'service-project', 'service'), ('service',), 'service-project', False),
    ('admin_system', _c(USER_A, PROJ_A, 'admin,member,reader', 'all'),
     ('admin', 'member', 'reader'), None, True),
    ('service_system', _c('nova', 'service-project', 'service', 'all'), ('service',), None, True),
]
CALLER = {c[0]: c for c in CALLERS}
ANON = ('none', 'forged_headers')
REF = 'service'          # satisfies every documented default: its answer is "the non-auth answer"


# ---------------------------------------------------------------------------------------------
# Evaluator for the policy language actually used.
# ---------------------------------------------------------------------------------------------
_TOK = re.compile(r'\s*(\(|\)|(?:%\([^)]*\)[a-z]|[^\s()])+)')


def parse(s):
    toks = _TOK.findall(s)
    pos = [0]

    def peek():
        return toks[pos[0]] if pos[0] < len(toks) else None

    def eat():
        pos[0] += 1
        return toks[pos[0] - 1]

    def p_or():
        n = p_and()
        while peek() == 'or':
            eat()
            n = ('or', n, p_and())
        return n

    def p_and():
        n = p_not()
        while peek() == 'and':
            eat()
            n = ('and', n, p_not())
        return n

    def p_not():
        t = peek()
        if t == 'not':
            eat()
            return ('not', p_not())
        if t == '(':
            eat()
            n = p_or()
            if eat() != ')':
                raise ValueError('unbalanced: %r' % s)
            return n
        t = eat()
        if t == '!':
            return ('false',)
        if t == '@':
            return ('true',)
        kind, _, match = t.partition(':')
        if not _:
            raise ValueError('cannot parse check %r in %r' % (t, s))
        return ('check', kind, match)
    if not toks:            # the empty check string always passes
        return ('true',)
    n = p_or()
    if pos[0] != len(toks):
        raise ValueError('trailing tokens in %r' % s)
    return n


class Policy(object):
    """Effective rules = documented defaults overlaid with one policy.yaml."""

    def __init__(self, overrides):
        self.rules = dict(DOC_DEFAULTS)
        self.rules.update(overrides or {})
        self.ast = {n: parse(s) for n, s in self.rules.items()}

    def ev(self, node, creds, target, depth=0):
        k = node[0]
        if k == 'true':
            return True
        if k == 'false':
            return False
        if k == 'not':
            return not self.ev(node[1], creds, target, depth)
        if k == 'or':
            return self.ev(node[1], creds, target, depth) or self.ev(node[2], creds, target, depth)
        if k == 'and':
            return self.ev(node[1], creds, target, depth) and \
                self.ev(node[2], creds, target, depth)
        _, kind, match = node
        if kind == 'rule':
            if match not in self.ast or depth > 20:
                return False
            return self.ev(self.ast[match], creds, target, depth + 1)
        if kind == 'role':
            return match.lower() in [r.lower() for r in creds['roles']]
        # generic check "<credential attribute>:<value, possibly %(target key)s>"
        try:
            want = match % target
        except (KeyError, TypeError):
            return False
        if kind not in creds:
            return False
        return want == str(creds[kind])

    def allows(self, rule, caller, target_project=None):
        """caller = CALLERS entry.  target_project None -> the default target (the caller's own
        project and user), as documented for RequestContext.can."""
        _, _, roles, project, system = caller
        if system:          # every API policy is scoped to project; not overridable
            return False
        creds = {'roles': roles, 'project_id': project}
        target = {'project_id': project if target_project is None else target_project}
        return self.ev(self.ast[rule], creds, target)

    def refers(self, rule, name, seen=None):
        """Does the effective definition of `rule` mention rule `name` (transitively)?"""
        if rule == name:
            return True
        seen = seen or set()
        if rule in seen or rule not in self.ast:
            return False
        seen.add(rule)

        def walk(n):
            if n[0] == 'check':
                return n[1] == 'rule' and self.refers(n[2], name, seen)
            return any(walk(x) for x in n[1:] if isinstance(x, tuple))
        return walk(self.ast[rule])


# ---------------------------------------------------------------------------------------------
# Operations and requests
# ---------------------------------------------------------------------------------------------
def setup_requests():
    inv = lambda **kw: {k: {'total': v} for k, v in kw.items()}   # noqa
    return [
        R('POST', RP, {'name': NAMES[P1], 'uuid': P1}),
        R('POST', RP, {'name': NAMES[P2], 'uuid': P2, 'parent_provider_uuid': P1}),
        R('POST', RP, {'name': NAMES[P3], 'uuid': P3}),
        R('PUT', '/resource_classes/' + RC_USED), R('PUT', '/resource_classes/' + RC_FREE),
        R('PUT', '/traits/' + TR_USED), R('PUT', '/traits/' + TR_FREE),
        R('PUT', RP + '/%s/inventories' % P1, {
            'resource_provider_generation': 0, 'inventories': inv(VCPU=8, MEMORY_MB=4096)}),
        R('PUT', RP + '/%s/inventories' % P2, {
            'resource_provider_generation': 0,
            'inventories': {'DISK_GB': {'total': 100}, RC_USED: {'total': 5}}}),
        R('PUT', RP + '/%s/inventories' % P3, {
            'resource_provider_generation': 0, 'inventories': inv(VCPU=4)}),
        R('PUT', RP + '/%s/traits' % P1, {
            'resource_provider_generation': 1, 'traits': [TR_USED, 'HW_CPU_X86_AVX2']}),
        R('PUT', RP + '/%s/aggregates' % P1, {
            'resource_provider_generation': 2, 'aggregates': [A(1)]}),
        R('PUT', '/allocations/' + K1, {
            'allocations': {P1: {'resources': {'VCPU': 1, 'MEMORY_MB': 128}},
                            P2: {'resources': {'DISK_GB': 10}}},
            'consumer_generation': None, 'project_id': PROJ_A, 'user_id': USER_A,
            'consumer_type': 'INSTANCE'}),
        R('PUT', '/allocations/' + K2, {
            'allocations': {P1: {'resources': {'VCPU': 2}}},
            'consumer_generation': None, 'project_id': PROJ_B, 'user_id': USER_B,
            'consumer_type': 'INSTANCE'}),
    ]


def valid_requests(d):
    """(route, method) -> one request that succeeds for an authorised caller in the state `d`."""
    g = {u: p['gen'] for u, p in d.providers.items()}
    cg = {u: c['gen'] for u, c in d.consumers.items()}
    rp = lambda u, tail='': RP + '/' + u + tail   # noqa
    alloc = lambda k, a, proj, user: {   # noqa
        'allocations': a, 'consumer_generation': cg.get(k), 'project_id': proj, 'user_id': user,
        'consumer_type': 'INSTANCE'}
    from vp import reqs as _rq
    old = {}
    for mv in OLD_VERSIONS[('PUT', '/allocations/{consumer_uuid}')]:
        r = _rq.put_alloc(K1, {P1: {'VCPU': 3}}, mv=mv, project=PROJ_A, user=USER_A,
                          cgen=cg.get(K1))
        r.pop('tag', None)
        old[('PUT', '/allocations/{consumer_uuid}', mv)] = r
    old[('PUT', '/resource_classes/{name}', '1.6')] = R(
        'PUT', '/resource_classes/' + RC_FREE, {'name': 'CUSTOM_RENAMED_RC'}, mv='1.6')
    old[('PUT', RPU + '/aggregates', '1.1')] = R('PUT', rp(P1, '/aggregates'), [A(2)], mv='1.1')
    old[('POST', '/allocations', '1.13')] = _rq.post_allocs(
        {K(3): {'allocs': {P1: {'VCPU': 1}}, 'project': PROJ_A, 'user': USER_A}}, mv='1.13')
    old[('POST', '/allocations', '1.13')].pop('tag', None)
    old[('POST', RP, '1.0')] = R('POST', RP, {'name': 'new-rp', 'uuid': P(9)}, mv='1.0')
    old[('PUT', RPU, '1.0')] = R('PUT', rp(P3), {'name': 'renamed-rp'}, mv='1.0')
    OLD_REQUESTS.clear()
    OLD_REQUESTS.update(old)
    return {
        ('GET', '/'): R('GET', '/'),
        ('GET', ''): R('GET', ''),
        ('GET', '/resource_classes'): R('GET', '/resource_classes'),
        ('POST', '/resource_classes'): R('POST', '/resource_classes', {'name': 'CUSTOM_NEW_RC'}),
        ('GET', '/resource_classes/{name}'): R('GET', '/resource_classes/' + RC_USED),
        ('PUT', '/resource_classes/{name}'): R('PUT', '/resource_classes/CUSTOM_NEW_RC2'),
        ('DELETE', '/resource_classes/{name}'): R('DELETE', '/resource_classes/' + RC_FREE),
        ('GET', RP): R('GET', RP),
        ('POST', RP): R('POST', RP, {'name': 'new-rp', 'uuid': P(9)}),
        ('GET', RPU): R('GET', rp(P1)),
        ('PUT', RPU): R('PUT', rp(P3), {'name': 'renamed-rp'}),
        ('DELETE', RPU): R('DELETE', rp(P3)),
        ('GET', RPU + '/inventories'): R('GET', rp(P1, '/inventories')),
        ('POST', RPU + '/inventories'): R('POST', rp(P3, '/inventories'), {
            'resource_class': 'DISK_GB', 'total': 10}),
        ('PUT', RPU + '/inventories'): R('PUT', rp(P3, '/inventories'), {
            'resource_provider_generation': g[P3],
            'inventories': {'VCPU': {'total': 16}, 'DISK_GB': {'total': 7}}}),
        ('DELETE', RPU + '/inventories'): R('DELETE', rp(P3, '/inventories')),
        ('GET', RPU + '/inventories/{resource_class}'): R('GET', rp(P1, '/inventories/VCPU')),
        ('PUT', RPU + '/inventories/{resource_class}'): R('PUT', rp(P3, '/inventories/VCPU'), {
            'resource_provider_generation': g[P3], 'total': 32}),
        ('DELETE', RPU + '/inventories/{resource_class}'):
            R('DELETE', rp(P3, '/inventories/VCPU')),
        ('GET', RPU + '/usages'): R('GET', rp(P1, '/usages')),
        ('GET', RPU + '/aggregates'): R('GET', rp(P1, '/aggregates')),
        ('PUT', RPU + '/aggregates'): R('PUT', rp(P1, '/aggregates'), {
            'resource_provider_generation': g[P1], 'aggregates': [A(2)]}),
        ('GET', RPU + '/allocations'): R('GET', rp(P1, '/allocations')),
        ('POST', '/allocations'): R('POST', '/allocations', {
            K(3): alloc(K(3), {P1: {'resources': {'VCPU': 1}}}, PROJ_A, USER_A)}),
        ('GET', '/allocations/{consumer_uuid}'): R('GET', '/allocations/' + K1),
        ('PUT', '/allocations/{consumer_uuid}'): R('PUT', '/allocations/' + K1, alloc(
            K1, {P1: {'resources': {'VCPU': 3}}}, PROJ_A, USER_A)),
        ('DELETE', '/allocations/{consumer_uuid}'): R('DELETE', '/allocations/' + K1),
        ('GET', '/allocation_candidates'): R('GET', '/allocation_candidates',
                                             query='resources=VCPU:1'),
        ('GET', '/traits'): R('GET', '/traits', query='name=startswith:CUSTOM_'),
        ('GET', '/traits/{name}'): R('GET', '/traits/' + TR_USED),
        ('PUT', '/traits/{name}'): R('PUT', '/traits/CUSTOM_NEW_TRAIT'),
        ('DELETE', '/traits/{name}'): R('DELETE', '/traits/' + TR_FREE),
        ('GET', RPU + '/traits'): R('GET', rp(P1, '/traits')),
        ('PUT', RPU + '/traits'): R('PUT', rp(P1, '/traits'), {
            'resource_provider_generation': g[P1], 'traits': ['HW_CPU_X86_SSE']}),
        ('DELETE', RPU + '/traits'): R('DELETE', rp(P1, '/traits')),
        ('GET', '/usages'): R('GET', '/usages', query='project_id=' + PROJ_A),
        ('POST', '/reshaper'): R('POST', '/reshaper', {
            'inventories': {
                P1: {'resource_provider_generation': g[P1],
                     'inventories': {'MEMORY_MB': {'total': 4096}}},
                P2: {'resource_provider_generation': g[P2],
                     'inventories': {'DISK_GB': {'total': 100}, RC_USED: {'total': 5},
                                     'VCPU': {'total': 8}}}},
            'allocations': {
                K1: alloc(K1, {P1: {'resources': {'MEMORY_MB': 128}},
                               P2: {'resources': {'DISK_GB': 10, 'VCPU': 1}}}, PROJ_A, USER_A),
                K2: alloc(K2, {P2: {'resources': {'VCPU': 2}}}, PROJ_B, USER_B)}}),
    }


# operations whose handler is registered separately per microversion range: the same (valid for
# that version) request once per range -- the policy check must be in every one of them
OLD_VERSIONS = {
    ('PUT', '/allocations/{consumer_uuid}'): ('1.0', '1.8', '1.12', '1.28', '1.34'),
    ('PUT', '/resource_classes/{name}'): ('1.6',),
    ('PUT', '/resource_providers/{uuid}/aggregates'): ('1.1',),
    ('POST', '/allocations'): ('1.13',),
    ('POST', '/resource_providers'): ('1.0',),
    ('PUT', '/resource_providers/{uuid}'): ('1.0',),
}
OLD_REQUESTS = {}
VARIANTS = ('valid', 'other_project', 'unknown', 'method', 'accept', 'ctype', 'mv1.0',
            'own_then_other', 'other_then_own') + tuple(sorted(
                {'old:' + v for vs in OLD_VERSIONS.values() for v in vs}))
_SWAP = [(P1, UNKNOWN_UUID), (P3, UNKNOWN_UUID), (K1, UNKNOWN_UUID),
         (RC_USED, 'CUSTOM_NO_SUCH'), (RC_FREE, 'CUSTOM_NO_SUCH'),
         (TR_USED, 'CUSTOM_NO_SUCH'), (TR_FREE, 'CUSTOM_NO_SUCH')]


def variant(req, route, method, kind):
    """Derive a request variant, or None when the variant does not exist for this operation."""
    if kind == 'valid':
        return req
    if kind.startswith('old:'):
        r = OLD_REQUESTS.get((method, route, kind[4:]))
        return dict(r) if r is not None else None
    q = dict(req)
    if kind == 'other_project':
        if route != '/usages':
            return None
        q['query'] = 'project_id=' + PROJ_B
        return q
    if kind in ('own_then_other', 'other_then_own'):
        # the parameter that names the policy target given twice: whichever project's usages are
        # reported is the one the caller has to be authorised for
        if route != '/usages':
            return None
        a, b = (PROJ_A, PROJ_B) if kind == 'own_then_other' else (PROJ_B, PROJ_A)
        q['query'] = 'project_id=%s&project_id=%s' % (a, b)
        return q
    if kind == 'unknown':        # same request for a resource that does not exist
        if '{' not in route:
            return None
        for a, b in _SWAP:
            if a in q['path']:
                q['path'] = q['path'].replace(a, b)
                return q
        return None
    if kind == 'method':         # a method the route does not declare (one per route)
        if method != 'GET' and route not in ('/allocations', '/reshaper'):
            return None
        q['method'] = 'PATCH'
        return q
    if kind == 'accept':
        q['accept'] = 'text/plain'
        return q
    if kind == 'ctype':
        if 'body' not in q:
            return None
        q['ctype'] = 'text/plain'
        return q
    if kind == 'mv1.0':
        q['mv'] = '1.0'
        return q
    raise ValueError(kind)


def op_id(method, route):
    return '%s %s' % (method, route or "''")


def usages_target(req):
    m = re.search(r'project_id=([^&]*)', req.get('query') or '')
    return m.group(1) if m else 'None'


# ---------------------------------------------------------------------------------------------
# Worker
# ---------------------------------------------------------------------------------------------
_REQ_ID = re.compile(rb'req-[0-9a-f]{8}(?:-[0-9a-f]{4}){3}-[0-9a-f]{12}')


def _digest(b):
    return hashlib.blake2b(_REQ_ID.sub(b'req-*', b or b''), digest_size=8).hexdigest()


def with_caller(req, cname):
    q = dict(req)
    q['caller'] = CALLER[cname][1]
    if cname == 'forged_headers':
        h = dict(q.get('headers') or {})
        h.update(FORGED)
        q['headers'] = h
    return q


def req_text(req):
    return json.dumps([req.get('path'), req.get('query'), req.get('body'), req.get('caller'),
                       req.get('headers')])


class Worker(vpenum.EnumWorker):
    def setup(self):
        # A failure here must not kill the worker process (the pool would respawn it for ever):
        # it is kept and reported by every case.
        self.broken = None
        try:
            self._setup()
        except Exception as e:   # noqa
            self.broken = {'req': {'method': '-', 'path': '/-'}, 'status': 0, 'snip': repr(e)}

    def _setup(self):
        self.setup_reqs = setup_requests()
        self.restore(self.base)
        for req in self.setup_reqs:
            resp, _ = self.call(req)
            if resp.status >= 400:
                self.broken = {'req': req, 'status': resp.status,
                               'snip': (resp.raw or b'')[:200].decode('utf-8', 'replace')}
                return
        self.state = self.image()
        self.d0 = self.dump()
        self.key0 = self.d0.key(aux=True)
        self.reqs = valid_requests(self.d0)
        self.policy_name = 'default'
        self.switches = 0

    # -- policy configuration (and the self-check that it really took effect) -------------
    def use_policy(self, name, rules):
        if name == self.policy_name:
            return
        from placement import policy as ppol
        if rules:
            self.h.set_policy(rules)
        else:
            self.h.clear_policy()
        enf = ppol._ENFORCER
        enf.load_rules()
        got = {k: str(v.check) for k, v in enf.file_rules.items()}
        if got != dict(rules or {}):
            raise HarnessError('policy configuration %s did not take effect: file rules %r, '
                               'wanted %r' % (name, got, rules))
        for k, v in (rules or {}).items():
            if str(enf.rules[k]) != v:
                raise HarnessError('policy override %s=%r not effective: %r' % (
                    k, v, str(enf.rules[k])))
        self.policy_name = name
        self.switches += 1

    def one(self, req):
        self.restore(self.state)
        resp, run = self.call(req)
        img_same = self.image() == self.state
        post = self.key0 if img_same else self.dump().key(aux=True)
        hay = (resp.raw or b'').decode('utf-8', 'replace') + ' ' + \
            ' '.join('%s' % v for v in resp.headers.values())
        rt = req_text(req)
        leaks = [c for c in CANARIES if c in hay and c not in rt]
        writes = sorted({t for x in run.txns for t in x.writes})
        return {'status': resp.status, 'nstmt': len(run.stmts), 'writes': writes,
                'same': img_same, 'post': post, 'leaks': leaks, 'body': _digest(resp.raw),
                'snip': (resp.raw or b'')[:160].decode('utf-8', 'replace'),
                'first_sql': run.stmts[0][0][:120] if run.stmts else None}

    def case(self, c):
        if c.get('kind') == 'static':
            return self.static()
        if self.broken:
            return {'broken': self.broken}
        self.use_policy(c['cfg'], c['rules'])
        route, method = c['route'], c['method']
        req = variant(self.reqs[(method, route)], route, method, c['variant'])
        if req is None:
            return {'skip': True}
        obs = {}
        for cname in c['callers']:
            obs[cname] = self.one(with_caller(req, cname))
        return {'req': req, 'obs': obs}

    def static(self):
        """What the service registers: rules (name, default, operations, scope) and routes."""
        from placement import handler
        from placement import policies
        rules = []
        for r in policies.list_rules():
            rules.append({'name': r.name, 'check_str': r.check_str,
                          'scope_types': list(r.scope_types or []),
                          'operations': [(o['method'], o['path'])
                                         for o in (getattr(r, 'operations', None) or [])],
                          'documented': hasattr(r, 'operations')})
        routes = sorted((route, method) for route, t in handler.ROUTE_DECLARATIONS.items()
                        for method in t)
        from oslo_policy import opts as popts
        return {'rules': rules, 'routes': routes,
                'enforce_new_defaults': bool(self.h.conf.oslo_policy.enforce_new_defaults),
                'scope_option_in_oslo_policy': any(
                    o.name == 'enforce_scope' for o in popts._options),
                'enforce_scope_conf': bool(self.h.conf.oslo_policy.enforce_scope)}


def make_worker(base_image, *args):
    return Worker(base_image, *args)


# ---------------------------------------------------------------------------------------------
# Oracle
# ---------------------------------------------------------------------------------------------
def expectation(pol, route, method, var, req, cname, ref, targets=None):
    """-> dict(status=set, quiet=bool, same_as_ref=bool, why=str).
    quiet: no SQL statement at all, database image unchanged, no canary in the answer."""
    caller = CALLER[cname]
    if route in ROOT_ROUTES:
        # The version document: no authentication, no policy.  (An undeclared method on it is
        # 405 for every caller.)  noauth2 only exempts the literal path "/", keystone's
        # PlacementAuthProtocol exempts "" too; both are accepted for "" without credentials.
        st = {ref['status']}
        if cname in ANON and route == '':
            st.add(401)
        return {'status': st, 'quiet': False, 'same_as_ref': False, 'root': True,
                'why': 'the version document needs no credentials and no role'}
    if cname in ANON:
        return {'status': {401}, 'quiet': True, 'same_as_ref': False,
                'why': 'no credentials => 401'}
    rule = OP_RULE[(method, route)]
    target = usages_target(req) if route == '/usages' else None
    if targets is not None:
        # repeated project_id: `targets` are the projects whose data the reference answer shows
        # (both named ones when the answer matches neither single-project answer)
        allowed = all(pol.allows(rule, caller, t) for t in targets)
        target = '/'.join(targets)
    else:
        allowed = pol.allows(rule, caller, target)
    if allowed:
        return {'status': {ref['status']}, 'quiet': False, 'same_as_ref': True,
                'why': 'caller satisfies %s = "%s"' % (rule, pol.rules[rule])}
    st = {403}
    if ref['status'] in EXEMPT:
        st.add(ref['status'])
    return {'status': st, 'quiet': True, 'same_as_ref': False,
            'why': 'caller does not satisfy %s = "%s"%s' % (
                rule, pol.rules[rule], ' (system-scoped token; policy is project scoped)'
                if caller[4] else '')}


def judge(exp, o, ref):
    """-> list of (kind, text)."""
    bad = []
    if o['status'] not in exp['status']:
        bad.append(('status', 'answered %s, expected %s' % (o['status'], sorted(exp['status']))))
    if exp['quiet']:
        if 200 <= o['status'] < 300:
            bad.append(('success', 'obtained a success response %s' % o['status']))
        if o['writes'] or not o['same']:
            bad.append(('write', 'wrote to %s / database image %s' % (
                o['writes'] or 'no table', 'unchanged' if o['same'] else 'changed')))
        elif o['nstmt']:
            bad.append(('sql', 'the database was consulted (%d statements, first: %s) before '
                        'the request was refused' % (o['nstmt'], o['first_sql'])))
        if o['leaks']:
            bad.append(('leak', 'the answer contains stored identifiers %s' % o['leaks']))
    if exp['same_as_ref'] and o['status'] in exp['status']:
        if o['body'] != ref['body']:
            bad.append(('body', 'body differs from the answer an authorised service caller '
                        'gets under default policy (%r vs %r)' % (o['snip'], ref['snip'])))
        if o['post'] != ref['post']:
            bad.append(('effect', 'resulting database state differs from the one an authorised '
                        'service caller produces under default policy'))
    return bad


def static_check(ctx, st):
    """Registered rules / routes against the documented tables."""
    n = 0
    reg = {r['name']: r for r in st['rules']}

    def v(sig, msg):
        ctx.violation('static:' + sig, msg, {'kind': 'static', 'sig': 'static:' + sig})
    for name in sorted(set(reg) | set(ALL_RULES)):
        n += 1
        if name not in reg:
            v('missing-rule:' + name, 'documented policy rule %s is not registered' % name)
            continue
        if name not in DOC_DEFAULTS:
            v('undocumented-rule:' + name, 'registered policy rule %s (%s) is not in the '
              'documented table' % (name, reg[name]['check_str']))
            continue
        r = reg[name]
        if not _equiv(r['check_str'], DOC_DEFAULTS[name]):
            v('default:' + name, 'default of %s is "%s"; documented default is "%s"' % (
                name, r['check_str'], DOC_DEFAULTS[name]))
        if name in DOC_OPS:
            if sorted(r['operations']) != sorted(DOC_OPS[name][1]):
                v('operations:' + name, 'rule %s documents operations %s; expected %s' % (
                    name, sorted(r['operations']), sorted(DOC_OPS[name][1])))
            if r['scope_types'] != ['project']:
                v('scope:' + name, 'rule %s has scope_types %s; every API policy is documented '
                  'as project scoped' % (name, r['scope_types']))
    for route, method in st['routes']:
        n += 1
        if route in ROOT_ROUTES and method == 'GET':
            continue
        if (method, route) not in OP_RULE:
            v('route-without-rule:' + op_id(method, route),
              'routing table declares %s which has no documented policy rule' % op_id(
                  method, route))
    for (method, route) in sorted(OP_RULE):
        n += 1
        if (route, method) not in [tuple(x) for x in st['routes']]:
            v('rule-without-route:' + op_id(method, route),
              'documented operation %s is not in the routing table' % op_id(method, route))
    return n


def _equiv(a, b):
    """Same decision for every caller class and both /usages targets (semantic comparison of two
    check strings in the context of the documented base rules)."""
    try:
        pa, pb = Policy({'__x': a}), Policy({'__x': b})
    except ValueError:
        return False
    for c in CALLERS:
        if c[1] is None:
            continue
        for tgt in (None, PROJ_A, PROJ_B):
            if pa.allows('__x', c, tgt) != pb.allows('__x', c, tgt):
                return False
    return True


# ---------------------------------------------------------------------------------------------
# keystone path, best effort (no identity service can be reached)
# ---------------------------------------------------------------------------------------------
def keystone_probe(base_image, reqs_order):
    """Child process: boot with [api] auth_strategy=keystone -> list of observations."""
    import multiprocessing
    mp = multiprocessing.get_context('fork')
    rd, wr = mp.Pipe(duplex=False)

    def child():
        out = {'error': None, 'obs': []}
        try:
            from vp.boot import Harness
            from vp.probe import Probe, Run
            from vp import http
            h = Harness(image=base_image, conf_overrides={('api', 'auth_strategy'): 'keystone'})
            from placement import deploy
            h.conf.set_override('www_authenticate_uri', 'http://127.0.0.1:9/identity',
                                group='keystone_authtoken')
            h.app = deploy.deploy(h.conf)
            probe = Probe(h)

            def call(req):
                run = Run()
                probe.cur = run
                try:
                    return http.call(h.app, req), run
                finally:
                    probe.cur = None
            # nothing can be authenticated here: the state was built through noauth2
            from vp.snapshot import Dump
            d = Dump(h.dbfile)
            try:
                reqs = valid_requests(d)
            except KeyError:
                reqs = None
            out['populated'] = reqs is not None
            if reqs is None:
                raise RuntimeError('keystone probe needs the populated image')
            img = h.read_image()
            for (method, route) in reqs_order:
                for cname in ('none', 'forged_headers', 'bad_token'):
                    req = dict(reqs[(method, route)])
                    if cname == 'bad_token':
                        req['caller'] = {'token': 'not-a-valid-token', 'roles': 'admin,service'}
                    else:
                        req = with_caller(req, cname)
                    resp, run = call(req)
                    out['obs'].append({
                        'route': route, 'method': method, 'caller': cname,
                        'status': resp.status, 'nstmt': len(run.stmts),
                        'same': h.read_image() == img,
                        'www': resp.headers.get('WWW-Authenticate'),
                        'snip': (resp.raw or b'')[:120].decode('utf-8', 'replace'),
                        'req': req})
        except BaseException as e:  # noqa
            out['error'] = repr(e)
        wr.send(out)
        wr.close()
    p = mp.Process(target=child)
    p.start()
    out = rd.recv() if rd.poll(120) else {'error': 'timeout', 'obs': []}
    p.join(5)
    if p.is_alive():
        p.terminate()
    return out


def populated_image():
    """Build the populated state once in a child (noauth2) so the keystone child can reuse it."""
    import multiprocessing
    mp = multiprocessing.get_context('fork')
    rd, wr = mp.Pipe(duplex=False)
    base = make_base_image()

    def child():
        try:
            w = Worker(base)
            if w.broken:
                raise RuntimeError('set-up refused: %r' % (w.broken,))
            wr.send(w.state)
        except BaseException as e:  # noqa
            wr.send(e)
        wr.close()
    p = mp.Process(target=child)
    p.start()
    img = rd.recv()
    p.join()
    if isinstance(img, BaseException):
        raise HarnessError('cannot build populated image: %r' % img)
    return img


# ---------------------------------------------------------------------------------------------
# run / replay
# ---------------------------------------------------------------------------------------------
# override values: quick = deny; thorough = deny, allow and four values that grant an operation
# to particular roles only
OVERRIDES_QUICK = (('deny', '!'),)
OVERRIDES_THOROUGH = (('deny', '!'), ('allow', '@'), ('reader', 'role:reader'),
                      ('project_reader', 'rule:project_reader_api'),
                      ('admin_rule', 'rule:admin_api'), ('not_service', 'not role:service'))


def configs(quick):
    out = [('default', {})]
    for how, val in (OVERRIDES_QUICK if quick else OVERRIDES_THOROUGH):
        for r in ALL_RULES:
            if val == 'rule:' + r:
                continue              # a rule defined as itself is not a meaningful override
            out.append(('%s:%s' % (how, r), {r: val}))
    return out


def run(ctx):
    ctx.level = 'exploration'
    cnames = [c[0] for c in CALLERS]
    rot = ctx.seed % len(cnames)
    order = cnames[rot:] + cnames[:rot]          # the seed only permutes execution order
    ops = sorted(DOC_SUCCESS, key=lambda o: (o[1], o[0]))
    rot = ctx.seed % len(ops)
    ops = ops[rot:] + ops[:rot]
    cfgs = configs(ctx.quick)

    cases = [{'kind': 'static'}]
    for cname, rules in cfgs:
        # request variants that are not plain valid requests run under the default policy and
        # under every deny override in thorough; under default only in quick
        kinds = VARIANTS if (cname == 'default' or not ctx.quick) else ('valid', 'other_project')
        for (method, route) in ops:
            for var in kinds:
                cases.append({'cfg': cname, 'rules': rules, 'route': route, 'method': method,
                              'variant': var, 'callers': order})
    results = vpenum.run_cases(ctx, 'vp.props.c16', cases, chunk=len(ops) * 2)

    evaluations = 0
    cells = set()
    status_hist = {}
    default_matrix = {}
    refs = {}
    matrices = {}        # cfg -> {(op, var): tuple of statuses by CALLERS order}
    predicted = {}       # cfg -> same, predicted
    nstatic = 0
    skipped = 0
    pols = {}
    static = None
    first = True
    for c, res in zip(cases, results):
        if first:
            first = False
            static = res
            nstatic = static_check(ctx, static)
            continue
        if res.get('broken'):
            _setup_failed(ctx, res['broken'])
            return
        if res.get('skip'):
            skipped += 1
            continue
        cfg, route, method, var = c['cfg'], c['route'], c['method'], c['variant']
        key = (method, route, var)
        oid = op_id(method, route) + ('' if var == 'valid' else ' [%s]' % var)
        obs, req = res['obs'], res['req']
        if cfg == 'default':
            ref = obs[REF]
            refs[key] = ref
            if var in ('valid', 'other_project'):
                want = DOC_SUCCESS[(method, route)]
                if ref['status'] != want:
                    ctx.violation(
                        'reference:%s:%s' % (oid, ref['status']),
                        '%s by an authorised service caller under default policy answered %s %r;'
                        ' documented success status is %s' % (oid, ref['status'], ref['snip'],
                                                               want),
                        _replay(cfg, c['rules'], req, REF, {'status': [want]}, None))
        ref = refs[key]
        targets = None
        if var in ('own_then_other', 'other_then_own'):
            ra = refs.get((method, route, 'valid'))
            rb = refs.get((method, route, 'other_project'))
            if ra and rb and ra['body'] != rb['body'] and ref['body'] == ra['body']:
                targets = [PROJ_A]
            elif ra and rb and ra['body'] != rb['body'] and ref['body'] == rb['body']:
                targets = [PROJ_B]
            else:
                targets = [PROJ_A, PROJ_B]
        pol = pols.get(cfg)
        if pol is None:
            pol = pols[cfg] = Policy(c['rules'])
        row, prow = [], []
        for cname in cnames:
            o = obs[cname]
            evaluations += 1
            exp = expectation(pol, route, method, var, req, cname, ref, targets)
            row.append(o['status'])
            prow.append(tuple(sorted(exp['status'])))
            if cname not in ANON and route not in ROOT_ROUTES:
                cells.add((oid, cname, cfg, o['status']))
            status_hist.setdefault(cname, {})
            status_hist[cname][str(o['status'])] = status_hist[cname].get(str(o['status']), 0) + 1
            for kind, text in judge(exp, o, ref):
                sig = '%s:%s:%s:%s:%s' % (kind, oid, _exp_class(exp, cname),
                                          _cfg_class(cfg, method, route), o['status'])
                ctx.violation(
                    sig, '%s as %s under policy %s: %s  [%s]' % (
                        oid, cname, cfg if c['rules'] else 'default', text, exp['why']),
                    _replay(cfg, c['rules'], req, cname, exp, ref))
        matrices.setdefault(cfg, {})[key] = tuple(row)
        predicted.setdefault(cfg, {})[key] = tuple(prow)
        if cfg == 'default' and (var in ('valid', 'other_project') or var.startswith('old:')):
            default_matrix[oid] = dict(zip(cnames, row))

    # "overriding exactly the documented rule of an operation is what grants or denies exactly
    # that operation": the set of operations whose answers differ from the default matrix must be
    # the operations documented for (or, for a base rule, defined through) the overridden rule.
    scope_checked = 0
    for cfg, rules in cfgs[1:]:
        (rname, val), = rules.items()
        base = Policy({})
        changed, should = set(), set()
        for key, row in matrices.get(cfg, {}).items():
            method, route, var = key
            if key not in matrices['default']:
                continue
            scope_checked += 1
            governed = route not in ROOT_ROUTES and base.refers(OP_RULE[(method, route)], rname)
            pc, pd = predicted[cfg][key], predicted['default'][key]
            if pc != pd and not governed:
                raise HarnessError('oracle inconsistency for %s under %s' % (key, cfg))
            must = any(not (set(a) & set(b)) for a, b in zip(pc, pd))
            if row != matrices['default'][key]:
                changed.add(key)
                if not governed or pc == pd:
                    should.discard(key)
                else:
                    should.add(key)      # a permitted change
            elif must:
                should.add(key)
        for key in sorted(changed ^ should):
            method, route, var = key
            oid = op_id(method, route) + ('' if var == 'valid' else ' [%s]' % var)
            if key in changed:
                msg = ('overriding %s to "%s" changed the answers of %s (default %s, now %s), '
                       'which is governed by %s' % (
                           rname, val, oid, matrices['default'][key], matrices[cfg][key],
                           OP_RULE.get((method, route), 'no rule')))
            else:
                msg = ('overriding %s to "%s" did not change the answers of %s (%s), although '
                       'that is the rule documented for it' % (rname, val, oid,
                                                               matrices[cfg][key]))
            ctx.violation('override-scope:%s:%s:%s' % (cfg.split(':')[0], rname, oid), msg,
                          {'kind': 'override-scope', 'cfg': cfg, 'rules': rules,
                           'route': route, 'method': method, 'variant': var,
                           'default_row': list(matrices['default'][key]),
                           'unchanged_expected': key not in should,
                           'setup': setup_requests()})

    # keystone path (best effort)
    ks = {'error': 'not run'}
    try:
        img = populated_image()
        ks = keystone_probe(img, [o for o in sorted(DOC_SUCCESS, key=lambda o: (o[1], o[0]))])
    except HarnessError as e:
        ks = {'error': str(e), 'obs': []}
    ks_n = 0
    for o in ks.get('obs', []):
        ks_n += 1
        evaluations += 1
        oid = op_id(o['method'], o['route'])
        if o['route'] in ROOT_ROUTES:
            ok = o['status'] == 200
            want = '200 (the version document bypasses authentication)'
        elif o['caller'] == 'bad_token':
            # cannot be validated offline (no identity service): anything but success / effect
            ok = not (200 <= o['status'] < 300) and o['nstmt'] == 0 and o['same']
            want = 'no success, no database access'
        else:
            ok = o['status'] == 401 and o['nstmt'] == 0 and o['same']
            want = '401 without database access'
        if not ok:
            ctx.violation('keystone:%s:%s:%s' % (oid, o['caller'], o['status']),
                          'auth_strategy=keystone: %s as %s answered %s %r (%d SQL statements); '
                          'expected %s' % (oid, o['caller'], o['status'], o['snip'], o['nstmt'],
                                           want),
                          {'kind': 'keystone', 'req': o['req'], 'caller': o['caller'],
                           'route': o['route'], 'method': o['method']})
    if ks.get('error'):
        ctx.assumptions.append('keystone path not exercised: %s' % ks['error'])
    else:
        ctx.assumptions.append(
            'auth_strategy=keystone: no identity service is reachable, so only requests without '
            'a token / with forged identity headers (=> 401, nothing read) , with an '
            'unverifiable token (=> no success, nothing read) and the bypass for "/" and "" '
            '(=> 200) are exercised (%d requests); token validation itself is trusted to '
            'keystonemiddleware' % ks_n)

    nontrivial = len(cells)
    sample_ops = ['GET /resource_providers', 'POST /reshaper', 'GET /usages',
                  'GET /usages [other_project]', 'DELETE /resource_providers/{uuid}/inventories',
                  "GET ''", 'GET /']
    ctx.coverage.update({
        'evaluations': evaluations,
        'distinct_nontrivial': nontrivial,
        'exhaustive': True,
        'rule': 'complete product: operations of ROUTE_DECLARATIONS (one valid request each, plus '
                'derived variants unknown-resource / undeclared-method / Accept / Content-Type / '
                'microversion 1.0 / other project) x caller classes x policy configurations '
                '(default + one override per registered rule); every request executed on a '
                'restored populated image and judged against the documented rule evaluated by an '
                'independent evaluator. distinct_nontrivial counts distinct (operation or variant,'
                ' caller class, policy configuration, answer status) cells in which credentials '
                'were presented to a policy-governed route (the blanket 401 cells and the version '
                'document are excluded)',
        'operations': len(ops), 'caller_classes': cnames, 'policy_configurations': len(cfgs),
        'rules_overridden': len(ALL_RULES),
        'override_values': [v for _, v in (OVERRIDES_QUICK if ctx.quick else OVERRIDES_THOROUGH)],
        'request_variants': list(VARIANTS), 'variant_cases_not_applicable': skipped,
        'static_facts_checked': nstatic, 'override_scope_rows_compared': scope_checked,
        'keystone_requests': ks_n,
        'status_histogram_per_caller': status_hist,
        'default_answer_matrix': default_matrix,
        'root_empty_path_without_credentials_noauth2':
            default_matrix.get("GET ''", {}).get('none'),
        'oslo_policy': {k: static[k] for k in ('enforce_new_defaults',
                                               'scope_option_in_oslo_policy',
                                               'enforce_scope_conf')} if static else None,
        'samples': [{'operation': o, 'policy': 'default', 'answers': default_matrix.get(o)}
                    for o in sample_ops if o in default_matrix],
    })
    ctx.assumptions += [
        'authentication is the noauth2 test double (token "user:project", roles from X-Roles, '
        'system scope from OpenStack-System-Scope); real keystone tokens cannot be issued offline',
        'roles are delivered flattened (admin => admin,member,reader; member => member,reader), '
        'as keystone does; member without reader is enumerated as well',
        'the installed oslo.policy enforces new defaults and scope_types unconditionally '
        '(enforce_new_defaults=%s, enforce_scope option exists in oslo.policy: %s), so '
        'system-scoped tokens are expected to be refused everywhere and the deprecated '
        'admin-only fallbacks are not OR-ed in' % (
            static and static['enforce_new_defaults'],
            static and static['scope_option_in_oslo_policy']),
        'one valid request per (route, method); the 404/405/406/415 clause is exercised through '
        'derived variants of it, whose expected answer for an unauthorised caller is 403 or the '
        'answer the authorised service caller gets if that is 404/405/406/415',
        'noauth2 answers 401 for the empty path "" without credentials (it only exempts "/"); '
        'accepted, the keystone middleware exempts both',
        'a refused request is required to issue no SQL statement at all (reads included)',
    ]


def _setup_failed(ctx, b):
    """A set-up request (a valid request by the admin token) was refused."""
    req = b['req']
    text = 'set-up request %s %s by an admin answered %s %r' % (
        req['method'], req['path'], b['status'], b['snip'])
    if b['status'] not in (401, 403):
        raise HarnessError(text)
    ctx.violation('setup-refused:%s %s:%s' % (req['method'], req['path'].split('/')[1],
                                              b['status']),
                  text + '; an admin satisfies the documented default of every rule used to '
                  'populate the state', {'kind': 'setup', 'setup': setup_requests()})
    ctx.coverage.update({'evaluations': 1, 'distinct_nontrivial': 0, 'exhaustive': False,
                         'rule': 'aborted: the populated state could not be built',
                         'samples': [req]})


def _cfg_class(cfg, method, route):
    """Signature component: default / override of the operation's own rule / of a base rule its
    rule is defined through / of an unrelated rule."""
    if cfg == 'default':
        return cfg
    how, rname = cfg.split(':', 1)
    own = OP_RULE.get((method, route))
    if own == rname:
        return how + '-own-rule'
    if own is not None and Policy({}).refers(own, rname):
        return how + '-base-rule'
    return how + '-unrelated-rule'


def _exp_class(exp, cname):
    if exp.get('root'):
        return 'version-document'
    if cname in ANON:
        return 'no-credentials'
    return 'authorised' if exp['same_as_ref'] else 'unauthorised'


def _replay(cfg, rules, req, cname, exp, ref):
    e = {'status': sorted(exp['status']), 'quiet': bool(exp.get('quiet')),
         'same_as_ref': bool(exp.get('same_as_ref')), 'why': exp.get('why')}
    if ref is not None:
        e['ref'] = {'status': ref['status'], 'body': ref['body'], 'post': ref['post']}
    return {'kind': 'cell', 'cfg': cfg, 'rules': rules, 'req': req, 'caller': cname,
            'expect': e, 'setup': setup_requests()}


def replay(ctx, data):
    kind = data.get('kind', 'cell')
    if kind == 'keystone':
        out = keystone_probe(populated_image(), [(data['method'], data['route'])])
        if out.get('error'):
            raise HarnessError('keystone probe failed: %s' % out['error'])
        for o in out['obs']:
            if o['caller'] != data['caller']:
                continue
            if o['route'] in ROOT_ROUTES:
                ok = o['status'] == 200
            elif o['caller'] == 'bad_token':
                ok = not (200 <= o['status'] < 300) and o['nstmt'] == 0 and o['same']
            else:
                ok = o['status'] == 401 and o['nstmt'] == 0 and o['same']
            return ok, 'keystone: %s %s as %s -> %s (%d statements)' % (
                o['method'], o['route'], o['caller'], o['status'], o['nstmt'])
        raise HarnessError('keystone replay produced no observation')
    w = Worker(make_base_image())
    if kind == 'setup':
        if w.broken:
            return False, 'set-up request %s %s by an admin answered %s %r' % (
                w.broken['req']['method'], w.broken['req']['path'], w.broken['status'],
                w.broken['snip'])
        return True, 'the populated state can be built'
    if w.broken:
        raise HarnessError('cannot build the populated state: %r' % (w.broken,))
    if kind == 'static':
        class _C(object):
            def __init__(self):
                self.found = []

            def violation(self, sig, msg, rp):
                self.found.append((sig, msg))
        c = _C()
        static_check(c, w.static())
        hit = [m for s, m in c.found if s == data.get('sig')]
        if hit:
            return False, hit[0]
        return True, 'static fact %s holds' % data.get('sig')
    if kind == 'override-scope':
        route, method, var = data['route'], data['method'], data['variant']
        req = variant(w.reqs[(method, route)], route, method, var)
        cn = [c[0] for c in CALLERS]
        rows = {}
        for cfg, rules in (('default', {}), (data['cfg'], data['rules'])):
            w.use_policy(cfg, rules)
            rows[cfg] = [w.one(with_caller(req, c))['status'] for c in cn]
        same = rows['default'] == rows[data['cfg']]
        msg = '%s %s [%s]: default %s ; under %s %s' % (method, route, var, rows['default'],
                                                       data['rules'], rows[data['cfg']])
        return (same == bool(data['unchanged_expected'])), msg
    # one cell
    w.use_policy(data['cfg'], data['rules'])
    o = w.one(with_caller(data['req'], data['caller']))
    e = data['expect']
    exp = {'status': set(e['status']), 'quiet': e.get('quiet', False),
           'same_as_ref': e.get('same_as_ref', False)}
    ref = e.get('ref') or {'body': o['body'], 'post': o['post'], 'snip': ''}
    ref.setdefault('snip', '')
    bad = judge(exp, o, ref)
    msg = '%s %s as %s under %s -> %s %r (%d SQL statements, writes %s)' % (
        data['req']['method'], data['req']['path'], data['caller'], data['rules'] or 'default',
        o['status'], o['snip'], o['nstmt'], o['writes'])
    if bad:
        return False, msg + ' :: ' + '; '.join(t for _, t in bad)
    return True, msg
