"""In-process HTTP client for the real WSGI pipeline (webob.Request.get_response)."""
import json

import webob

ADMIN = {'token': 'admin', 'roles': None}
SERVICE = {'token': 'admin', 'roles': 'admin,service'}


class Resp(object):
    __slots__ = ('status', 'headers', 'raw', '_json', 'escaped')

    def __init__(self, status, headers, raw, escaped=None):
        self.status = status
        self.headers = headers
        self.raw = raw
        self._json = Ellipsis
        self.escaped = escaped

    @property
    def json(self):
        if self._json is Ellipsis:
            try:
                self._json = json.loads(self.raw.decode('utf-8')) if self.raw else None
            except Exception:
                self._json = None
        return self._json

    def err_code(self):
        j = self.json
        try:
            return j['errors'][0].get('code')
        except Exception:
            return None

    def brief(self):
        return {'status': self.status, 'body': (self.raw[:400].decode('utf-8', 'replace')
                                                 if self.raw else '')}


def R(method, path, body=None, mv='1.39', query=None, headers=None, caller=ADMIN,
      raw=None, ctype=Ellipsis, accept='application/json', tag=None):
    """Build a request description (a plain dict, JSON-serialisable)."""
    d = {'method': method, 'path': path, 'mv': mv}
    if body is not None:
        d['body'] = body
    if raw is not None:
        d['raw'] = raw
    if query:
        d['query'] = query
    if headers:
        d['headers'] = headers
    if caller is not ADMIN:
        d['caller'] = caller
    if ctype is not Ellipsis:
        d['ctype'] = ctype
    if accept != 'application/json':
        d['accept'] = accept
    if tag:
        d['tag'] = tag
    return d


def build(req):
    path = req['path']
    q = req.get('query')
    if q:
        path = path + '?' + q
    r = webob.Request.blank(path, method=req['method'])
    r.environ['REMOTE_ADDR'] = '127.0.0.1'
    caller = req.get('caller', ADMIN)
    if caller is not None:
        if caller.get('token') is not None:
            r.headers['X-Auth-Token'] = caller['token']
        if caller.get('roles') is not None:
            r.headers['X-Roles'] = caller['roles']
        if caller.get('system'):
            r.headers['OpenStack-System-Scope'] = caller['system']
    mv = req.get('mv')
    if mv is not None:
        r.headers['OpenStack-API-Version'] = 'placement %s' % mv
    acc = req.get('accept', 'application/json')
    if acc is not None:
        r.headers['Accept'] = acc
    body = None
    if 'raw' in req:
        body = req['raw']
        if isinstance(body, str):
            body = body.encode('utf-8', 'surrogatepass')
    elif 'body' in req:
        body = json.dumps(req['body']).encode('utf-8')
    if body is not None:
        r.body = body
        ctype = req.get('ctype', 'application/json')
        if ctype is not None:
            r.content_type = ctype
        elif 'Content-Type' in r.headers:
            del r.headers['Content-Type']
    elif 'ctype' in req and req['ctype'] is not None:
        r.content_type = req['ctype']
    for k, v in (req.get('headers') or {}).items():
        if v is None:
            r.headers.pop(k, None)
        else:
            r.headers[k] = v
    return r


def call(app, req):
    r = build(req)
    try:
        resp = r.get_response(app)
    except Exception as e:  # an exception escaping the whole pipeline
        return Resp(599, {}, repr(e).encode(), escaped=e)
    return Resp(resp.status_int, dict(resp.headers), resp.body)
