"""Boot the real placement WSGI pipeline on a private SQLite file under /dev/shm.

Nothing in /repo is modified: the harness builds its own ConfigOpts, registers the one
option (`[oslo_policy] enforce_scope`) that deploy() reads and oslo.policy 6 no longer
defines, and calls the unmodified placement.deploy.loadapp().
"""
import atexit
import json
import logging
import os
import shutil
import sys
import tempfile

HASHSEED = os.environ.get('VP_HASHSEED', '0')


def pin_hashseed():
    """Re-exec once with PYTHONHASHSEED pinned (set order decides SQL statement order)."""
    if os.environ.get('PYTHONHASHSEED') != HASHSEED:
        os.environ['PYTHONHASHSEED'] = HASHSEED
        os.execv(sys.executable, [sys.executable] + sys.argv_orig
                 if hasattr(sys, 'argv_orig') else [sys.executable] + sys.orig_argv[1:])


_STATE = {}


class Harness(object):
    """One booted application + its scratch database file."""

    def __init__(self, conf_overrides=None, policy=None, fk=True, sync=True, image=None):
        from oslo_config import cfg
        from oslo_policy import opts as policy_opts
        import placement.conf
        from placement import db_api
        from placement import deploy
        from placement import policy as placement_policy
        from placement.db.sqlalchemy import migration

        if _STATE.get('booted'):
            raise RuntimeError('one Harness per process (enginefacade is global)')
        _STATE['booted'] = True
        logging.disable(logging.CRITICAL)
        from oslo_utils import timeutils
        import datetime
        timeutils.set_time_override(datetime.datetime(2026, 1, 1, 12, 0, 0))
        import warnings
        warnings.filterwarnings('ignore')

        parent = os.environ.get('VP_SHM_PARENT')
        if not parent or not os.path.isdir(parent):
            parent = '/dev/shm'
        self.dir = tempfile.mkdtemp(prefix='vp-', dir=parent)
        # atexit does not run in multiprocessing children (os._exit): pools hand their workers
        # a parent directory (VP_SHM_PARENT) that the master removes; see vp/workers.py
        atexit.register(shutil.rmtree, self.dir, True)
        self.dbfile = os.path.join(self.dir, 'placement.db')
        self.policy_file = os.path.join(self.dir, 'policy.yaml')

        conf = cfg.ConfigOpts()
        placement.conf.register_opts(conf)
        policy_opts._register(conf)
        try:
            conf.register_opt(cfg.BoolOpt('enforce_scope', default=False),
                              group='oslo_policy')
        except cfg.DuplicateOptError:
            pass
        conf.set_override('connection', 'sqlite:///' + self.dbfile,
                          group='placement_database')
        conf([], project='placement', default_config_files=[], default_config_dirs=[])
        conf.set_override('auth_strategy', 'noauth2', group='api')
        conf.set_override('sync_on_startup', False, group='placement_database')
        for (group, name), value in (conf_overrides or {}).items():
            conf.set_override(name, value, group=group)
        self.conf = conf

        db_api.placement_context_manager.configure(
            sqlite_fk=fk, sqlite_synchronous=False)
        db_api.configure(conf)
        self.engine = db_api.get_placement_engine()
        if image is None:
            migration.create_schema(self.engine)
            self._no_id_reuse()
        else:
            self.write_image(image)
        self.schema_image = self.read_image()
        self._policy_mod = placement_policy
        self._deploy = deploy
        if policy is not None:
            self.set_policy(policy, init=False)
        if sync:
            self.app = deploy.loadapp(conf)
        else:
            self.app = deploy.deploy(conf)
            placement_policy.init(conf)
        self.base_image = self.read_image()

    def _no_id_reuse(self):
        """Substrate fidelity: MySQL auto_increment and PostgreSQL sequences never hand out a
        surrogate key twice, while a plain SQLite INTEGER PRIMARY KEY reuses max(rowid)+1 after
        the highest row is deleted (an allocation id read by one request could then name a row
        written later by another). Recreate the (still empty) tables with AUTOINCREMENT. Harness
        side only; the schema is otherwise exactly what placement's create_schema() produced."""
        import re
        import sqlite3
        self.engine.dispose()
        c = sqlite3.connect(self.dbfile)
        tables = c.execute("select name, sql from sqlite_master where type='table'").fetchall()
        indexes = c.execute("select tbl_name, sql from sqlite_master where type='index' and sql "
                            "is not null").fetchall()
        for name, sql in tables:
            if 'PRIMARY KEY (id)' not in sql or 'AUTOINCREMENT' in sql:
                continue
            new = re.sub(r'\bid INTEGER NOT NULL', 'id INTEGER PRIMARY KEY AUTOINCREMENT NOT NULL',
                         sql, count=1)
            new = re.sub(r',?\s*PRIMARY KEY \(id\)', '', new, count=1)
            c.execute('drop table %s' % name)
            c.execute(new)
            for tbl, isql in indexes:
                if tbl == name:
                    c.execute(isql)
        c.commit()
        c.close()

    # -- database image ----------------------------------------------------------------
    def read_image(self):
        with open(self.dbfile, 'rb') as f:
            return f.read()

    def write_image(self, image):
        # No connection is open between requests (NullPool), so rewriting is safe.
        j = self.dbfile + '-journal'
        if os.path.exists(j):
            os.unlink(j)
        with open(self.dbfile, 'wb') as f:
            f.write(image)

    def reset(self):
        self.write_image(self.base_image)

    # -- restart event -----------------------------------------------------------------
    def restart(self):
        """The start-up synchronisation a new process performs."""
        from placement.objects import resource_class
        from placement.objects import trait
        trait._TRAITS_SYNCED = False
        resource_class._RESOURCE_CLASSES_SYNCED = False
        self._deploy.update_database(self.conf)

    def resync(self):
        """The start-up synchronisation run again in the SAME process (an application reload in a
        long-lived interpreter): the process-wide 'already synchronised' flags are left as the
        previous attempt left them."""
        self._deploy.update_database(self.conf)

    # -- policy ------------------------------------------------------------------------
    def set_policy(self, rules, init=True):
        with open(self.policy_file, 'w') as f:
            json.dump(rules or {}, f)
        self.conf.set_override('policy_file', self.policy_file, group='oslo_policy')
        if init:
            self._policy_mod.reset()
            self._policy_mod.init(self.conf)

    def clear_policy(self):
        self.conf.clear_override('policy_file', group='oslo_policy')
        self._policy_mod.reset()
        self._policy_mod.init(self.conf)


def make_base_image(conf_overrides=None, sync=True):
    """Create the base database image (schema + start-up sync) in a short-lived child process,
    so that every worker starts from byte-identical data."""
    import multiprocessing
    ctx = multiprocessing.get_context('fork')
    rd, wr = ctx.Pipe(duplex=False)

    def child():
        h = None
        try:
            h = Harness(conf_overrides=conf_overrides, sync=sync)
            wr.send(h.base_image)
        except BaseException as e:  # noqa
            wr.send(e)
        finally:
            wr.close()
            if h is not None:
                shutil.rmtree(h.dir, True)
    p = ctx.Process(target=child)
    p.start()
    img = rd.recv()
    p.join()
    if isinstance(img, BaseException):
        raise img
    return img
