"""Brute-force oracle for GET /allocation_candidates, transcribed from the statement of C03.

A query is a plain dict:

  {'mv': '1.39',
   'groups': {'': {'resources': {'VCPU': 1}, 'required': [['T1'], ['T2', 'T3']],
                   'forbidden': ['T4'], 'member_of': [[agg, agg2], [agg3]],
                   'forbidden_aggs': [agg4], 'in_tree': uuid},
              '1': {...}},
   'group_policy': 'none' | 'isolate' | None,
   'same_subtree': [['1', '2']],
   'root_required': (['T'], ['U'])}

`required` is a list of any-of lists (a plain required trait is a one-element list).

ac_oracle(dump, query) -> set of (allocations, mappings) with
   allocations = frozenset of (provider uuid, class, amount)
   mappings    = frozenset of (suffix, frozenset of provider uuids)
"""
import itertools
from urllib.parse import quote

from vp.names import SHARING
from vp.snapshot import capacity


class World(object):
    """Derived views of a Dump used by the oracle (no SQL, no placement code)."""

    def __init__(self, d):
        self.d = d
        self.providers = sorted(d.providers)
        self.traits = {}
        self.aggs = {}
        for rp, t in d.rp_traits:
            self.traits.setdefault(rp, set()).add(t)
        for rp, a in d.rp_aggs:
            self.aggs.setdefault(rp, set()).add(a)
        self.used = d.used()
        self.top = {u: d.top_of(u) for u in self.providers}
        self.roots = sorted({t for t in self.top.values()})
        self.tree = {r: {u for u in self.providers if self.top[u] == r} for r in self.roots}
        self.sharing = {u for u in self.providers if SHARING in self.traits.get(u, ())}
        self.parent = {u: d.providers[u]['parent'] for u in self.providers}

    def usable(self, r):
        """tree of r plus the sharing providers associated through an aggregate with a provider
        of that tree"""
        tree = self.tree[r]
        tree_aggs = set()
        for u in tree:
            tree_aggs |= self.aggs.get(u, set())
        out = set(tree)
        for s in self.sharing:
            if self.aggs.get(s, set()) & tree_aggs:
                out.add(s)
        return out

    def room(self, rp, rc, amount, extra_used=0):
        inv = self.d.inventories.get((rp, rc))
        if inv is None:
            return False
        if amount < inv['min_unit'] or amount > inv['max_unit'] or amount % inv['step_size']:
            return False
        return self.used.get((rp, rc), 0) + extra_used + amount <= capacity(inv)

    def ancestors_or_self(self, u):
        out = {u}
        while self.parent.get(u) is not None:
            u = self.parent[u]
            out.add(u)
        return out

    def has_traits(self, rp, required, forbidden):
        t = self.traits.get(rp, set())
        return all(set(anyof) & t for anyof in required) and not (set(forbidden) & t)

    def in_aggs(self, rp, member_of, forbidden_aggs):
        a = self.aggs.get(rp, set())
        return all(set(anyof) & a for anyof in member_of) and not (set(forbidden_aggs) & a)


def ac_oracle(d, q, nested_aware=None):
    w = World(d)
    mv = tuple(int(x) for x in q.get('mv', '1.39').split('.'))
    if nested_aware is None:
        nested_aware = mv >= (1, 29)
    groups = q['groups']
    out = set()
    rr_req, rr_forb = q.get('root_required') or ([], [])
    for r in w.roots:
        if rr_req or rr_forb:
            if not w.has_traits(r, [[t] for t in rr_req], rr_forb):
                continue
        usable = sorted(w.usable(r))
        per_group = []       # list of (suffix, [ (tuple of (rp, rc, amt)), frozenset(providers) ])
        feasible = True
        for suffix, g in groups.items():
            opts = []
            res = g.get('resources') or {}
            required = g.get('required') or []
            forbidden = g.get('forbidden') or []
            member_of = g.get('member_of') or []
            fagg = g.get('forbidden_aggs') or []
            in_tree = g.get('in_tree')
            tree_ok = None
            if in_tree is not None:
                if in_tree not in w.top:
                    feasible = False
                    break
                tree_ok = w.tree[w.top[in_tree]]
            if suffix != '':
                # one provider for everything the group asks
                for p in usable:
                    if tree_ok is not None and p not in tree_ok:
                        continue
                    if not all(w.room(p, rc, amt) for rc, amt in res.items()):
                        continue
                    if not w.has_traits(p, required, forbidden):
                        continue
                    if not w.in_aggs(p, member_of, fagg):
                        continue
                    opts.append((tuple((p, rc, amt) for rc, amt in sorted(res.items())),
                                 frozenset([p])))
            else:
                classes = sorted(res)
                cands = []
                for rc in classes:
                    ps = []
                    for p in usable:
                        if tree_ok is not None and p not in tree_ok:
                            continue
                        if not w.room(p, rc, res[rc]):
                            continue
                        # member_of: directly, or for providers of the tree through its root
                        direct = w.in_aggs(p, member_of, [])
                        via_root = p in w.tree[r] and w.in_aggs(r, member_of, [])
                        if member_of and not (direct or via_root):
                            continue
                        bad = set(fagg) & w.aggs.get(p, set())
                        bad_root = p in w.tree[r] and (set(fagg) & w.aggs.get(r, set()))
                        if bad or bad_root:
                            continue
                        if set(forbidden) & w.traits.get(p, set()):
                            continue
                        ps.append(p)
                    cands.append(ps)
                for combo in itertools.product(*cands):
                    provs = set(combo)
                    have = set()
                    for p in provs:
                        have |= w.traits.get(p, set())
                    if not all(set(anyof) & have for anyof in required):
                        continue
                    opts.append((tuple((p, rc, res[rc]) for p, rc in zip(combo, classes)),
                                 frozenset(provs)))
            if not opts:
                feasible = False
                break
            per_group.append((suffix, opts))
        if not feasible:
            continue
        suffixes = [s for s, _ in per_group]
        for choice in itertools.product(*[o for _, o in per_group]):
            # group_policy=isolate: suffixed groups pairwise on different providers
            if q.get('group_policy') == 'isolate':
                gp = [list(c[1])[0] for s, c in zip(suffixes, choice) if s != '']
                if len(set(gp)) != len(gp):
                    continue
            prov_of = {s: c[1] for s, c in zip(suffixes, choice)}
            ok = True
            for ss in q.get('same_subtree') or []:
                ps = set()
                for s in ss:
                    ps |= set(prov_of.get(s, ()))
                if len(ps) > 1:
                    common = None
                    for p in ps:
                        a = w.ancestors_or_self(p)
                        common = a if common is None else (common & a)
                    if not (common & ps):
                        ok = False
                        break
            if not ok:
                continue
            total = {}
            for c in choice:
                for p, rc, amt in c[0]:
                    total[(p, rc)] = total.get((p, rc), 0) + amt
            for (p, rc), amt in total.items():
                inv = d.inventories[(p, rc)]
                if amt > inv['max_unit'] or w.used.get((p, rc), 0) + amt > capacity(inv):
                    ok = False
                    break
            if not ok:
                continue
            if not nested_aware:
                used_provs = {p for (p, rc) in total}
                if len({w.top[p] for p in used_provs}) != len(used_provs):
                    continue
            allocs = frozenset((p, rc, amt) for (p, rc), amt in total.items())
            mappings = frozenset((s, c[1]) for s, c in zip(suffixes, choice))
            out.add((allocs, mappings))
    return out


# ---------------------------------------------------------------------------------------------
# query string and response handling
# ---------------------------------------------------------------------------------------------

def to_qs(q):
    parts = []

    def add(k, v):
        parts.append('%s=%s' % (k, quote(v, safe=':,!')))
    for suffix, g in q['groups'].items():
        res = g.get('resources')
        if res:
            add('resources' + suffix, ','.join('%s:%d' % (rc, a) for rc, a in sorted(res.items())))
        req = g.get('required') or []
        forb = g.get('forbidden') or []
        plain = [a[0] for a in req if len(a) == 1]
        anyofs = [a for a in req if len(a) > 1]
        first = plain + ['!' + t for t in forb]
        if first:
            add('required' + suffix, ','.join(first))
        for a in anyofs:
            add('required' + suffix, 'in:' + ','.join(a))
        for a in g.get('member_of') or []:
            add('member_of' + suffix, a[0] if len(a) == 1 else 'in:' + ','.join(a))
        fa = g.get('forbidden_aggs') or []
        if fa:
            add('member_of' + suffix, ('!' + fa[0]) if len(fa) == 1 else '!in:' + ','.join(fa))
        if g.get('in_tree'):
            add('in_tree' + suffix, g['in_tree'])
    if q.get('group_policy'):
        add('group_policy', q['group_policy'])
    for ss in q.get('same_subtree') or []:
        add('same_subtree', ','.join(ss))
    rr = q.get('root_required')
    if rr and (rr[0] or rr[1]):
        add('root_required', ','.join(list(rr[0]) + ['!' + t for t in rr[1]]))
    if q.get('limit'):
        add('limit', str(q['limit']))
    return '&'.join(parts)


def parse_response(j, mv):
    """-> list of (allocations frozenset, mappings frozenset or None) in response order"""
    out = []
    v = tuple(int(x) for x in mv.split('.'))
    for ar in j.get('allocation_requests', []):
        al = ar['allocations']
        items = set()
        if isinstance(al, dict):
            for rp, x in al.items():
                for rc, amt in x['resources'].items():
                    items.add((rp, rc, amt))
        else:
            for x in al:
                rp = x['resource_provider']['uuid']
                for rc, amt in x['resources'].items():
                    items.add((rp, rc, amt))
        mp = None
        if v >= (1, 34):
            mp = frozenset((s, frozenset(ps)) for s, ps in ar.get('mappings', {}).items())
        out.append((frozenset(items), mp))
    return out


def short(u):
    return u[-2:] if isinstance(u, str) and len(u) == 36 else u


def fmt(cands):
    res = []
    for allocs, mp in sorted(cands, key=repr):
        a = ' '.join('%s:%s=%d' % (short(p), rc, amt) for p, rc, amt in sorted(allocs))
        m = ''
        if mp is not None:
            m = ' {' + ', '.join('%r:[%s]' % (s, ','.join(sorted(short(p) for p in ps)))
                                 for s, ps in sorted(mp, key=repr)) + '}'
        res.append(a + m)
    return res
