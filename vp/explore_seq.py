"""E-seq: explicit-state breadth-first search over request histories of the real service.

A state is a database image; a transition executes one request through the real WSGI pipeline
on a restored image. States are deduplicated by the spec's canonical key. The search is
level-synchronous; levels are expanded by a pool of workers and merged in task order.

A spec class provides:
  conf            dict {(group, name): value} of configuration overrides (optional)
  starts(h)       -> list of (name, [setup requests])
  alphabet(d)     -> list of request dicts (each with a 'tag') enabled in dump d
  canon(d)        -> hashable key
  on_state(d, h, call)          -> [(signature, message)]      invariants / probes on a state
  on_transition(pre, req, resp, run, post) -> [(signature, message)]
"""
import collections
import importlib
import random

from vp import http
from vp.boot import Harness, make_base_image
from vp.check import HarnessError
from vp.probe import Probe, Run
from vp.snapshot import Dump
from vp.workers import Pool, decode_image, encode_image


class SeqWorker(object):
    def __init__(self, modname, clsname, args, base_image):
        mod = importlib.import_module(modname)
        cls = getattr(mod, clsname)
        self.spec = cls(*args)
        self.h = Harness(image=base_image, conf_overrides=getattr(self.spec, 'conf', None))
        self.base = base_image
        self.probe = Probe(self.h)
        self.known = set()
        if hasattr(self.spec, 'attach'):
            self.spec.attach(self.h, self)

    def call(self, req):
        run = Run()
        self.probe.cur = run
        try:
            resp = http.call(self.h.app, req)
        finally:
            self.probe.cur = None
        if self.probe.locked_errors:
            raise HarnessError('database is locked')
        return resp, run

    def dump(self):
        return Dump(self.h.dbfile)

    def work(self, task):
        kind = task[0]
        if kind == 'init':
            _, setup = task
            self.h.write_image(self.base)
            for req in setup:
                resp, _ = self.call(req)
                if resp.status >= 400:
                    raise HarnessError('setup request failed: %s %s -> %s %s' % (
                        req['method'], req['path'], resp.status, resp.raw[:300]))
            d = self.dump()
            img = self.h.read_image()
            viol = self.spec.on_state(d, self.h, self.call)
            self.h.write_image(img)
            return (self.spec.canon(d), encode_image(img, self.base), viol)
        if kind == 'expand':
            _, blob, check_determinism = task
            img = decode_image(blob, self.base)
            self.h.write_image(img)
            pre = self.dump()
            out = []
            alphabet = self.spec.alphabet(pre)
            for i, req in enumerate(alphabet):
                self.h.write_image(img)
                resp, run = self.call(req)
                post = self.dump()
                viol = list(self.spec.on_transition(pre, req, resp, run, post))
                key = self.spec.canon(post)
                new_blob = None
                if key not in self.known:
                    self.known.add(key)
                    img2 = self.h.read_image()
                    viol += [(s, m) for s, m in self.spec.on_state(post, self.h, self.call)]
                    new_blob = encode_image(img2, self.base)
                if check_determinism and i == 0:
                    self.h.write_image(img)
                    resp2, run2 = self.call(req)
                    post2 = self.dump()
                    # statement *order* may legitimately vary (sets of objects hashed by
                    # address inside placement); outcome and statement multiset may not
                    if (resp2.status, sorted(map(repr, run2.stmts)), post2.core()) != (
                            resp.status, sorted(map(repr, run.stmts)), post.core()):
                        viol += list(self.spec.on_transition(pre, req, resp2, run2, post2))
                        viol.append(('__nondeterministic__', 'two executions of %s %s from the '
                                     'same state differ' % (req['method'], req['path'])))
                changed = post.core() != pre.core()
                out.append((req.get('tag', req['method']), resp.status, key, new_blob,
                            viol, req if (viol or new_blob) else None, changed))
            return out
        raise HarnessError('unknown task %r' % (kind,))


def make_worker(modname, clsname, args, base_image):
    return SeqWorker(modname, clsname, args, base_image)


def explore(ctx, modname, clsname, args=(), max_depth=3, max_states=None, conf=None,
            replay_extra=None):
    """Run the BFS. Returns a stats dict; violations are recorded on ctx."""
    mod = importlib.import_module(modname)
    spec = getattr(mod, clsname)(*args)
    conf = getattr(spec, 'conf', None)
    base = make_base_image(conf_overrides=conf)
    pool = Pool(ctx.workers, 'vp.explore_seq', 'make_worker', (modname, clsname, args, base))
    seen = {}
    frontier = []
    outcomes = collections.defaultdict(collections.Counter)
    stats = {'states': 0, 'transitions': 0, 'depth_completed': 0, 'fixpoint': False,
             'determinism_reruns': 0, 'state_changing_transitions': 0,
             'rejected_transitions': 0}
    samples = []
    nondet = []
    try:
        starts = spec.starts()
        res = list(pool.map([('init', setup) for _, setup in starts]))
        for (name, setup), (key, blob, viol) in zip(starts, res):
            for sig, msg in viol:
                ctx.violation(sig, msg, {'engine': 'seq', 'spec': [modname, clsname, list(args)],
                                         'history': setup, 'final': None})
            if key not in seen:
                seen[key] = True
                frontier.append((blob, list(setup)))
        stats['states'] = len(seen)
        rng = random.Random(ctx.seed)
        for depth in range(1, max_depth + 1):
            if not frontier:
                stats['fixpoint'] = True
                break
            if ctx.seed:
                rng.shuffle(frontier)
            tasks = [('expand', blob, (i % 50 == 0)) for i, (blob, _) in enumerate(frontier)]
            stats['determinism_reruns'] += sum(1 for t in tasks if t[2])
            nxt = []
            capped = False
            for (blob, hist), out in zip(frontier, pool.map(tasks)):
                for tag, status, key, new_blob, viol, req, changed in out:
                    stats['transitions'] += 1
                    outcomes[tag][status] += 1
                    if changed:
                        stats['state_changing_transitions'] += 1
                    if status >= 400:
                        stats['rejected_transitions'] += 1
                    for sig, msg in viol:
                        if sig == '__nondeterministic__':
                            nondet.append(msg)
                            continue
                        ctx.violation(sig, msg, {
                            'engine': 'seq', 'spec': [modname, clsname, list(args)],
                            'history': hist, 'final': req})
                    if key not in seen:
                        if new_blob is None:
                            raise HarnessError('worker cache dropped a new state')
                        seen[key] = True
                        nxt.append((new_blob, hist + [req]))
                        if len(samples) < 3 and depth == max_depth:
                            samples.append([_short(r) for r in hist + [req]])
                if ctx.out_of_time() or (max_states and len(seen) > max_states):
                    capped = True
                    break
            stats['states'] = len(seen)
            if capped:
                ctx.cap('stopped inside depth %d (budget/state cap): %d states, %d transitions; '
                        'depth %d fully covered' % (depth, len(seen), stats['transitions'],
                                                    depth - 1))
                break
            stats['depth_completed'] = depth
            frontier = nxt
            if ctx.new_violations():
                ctx.cap('stopped after depth %d: violations found (shortest counterexamples '
                        'first)' % depth)
                break
        else:
            if not frontier:
                stats['fixpoint'] = True
    finally:
        pool.close()
    if nondet and not ctx.violations:
        # every observed behaviour is a real one, so violations found are reported; a run
        # that saw unexplained nondeterminism and no violation is not trusted as clean
        raise HarnessError('nondeterminism not owned by the harness: %s' % nondet[:3])
    stats['nondeterministic_pairs'] = len(nondet)
    stats['outcomes'] = {t: dict(c) for t, c in sorted(outcomes.items())}
    stats['never_collided'] = sorted(t for t, c in outcomes.items() if len(c) == 1)
    stats['samples'] = samples
    return stats


def _short(r):
    s = {'m': r['method'], 'p': r['path']}
    if r.get('mv') not in (None, '1.39'):
        s['mv'] = r['mv']
    if 'body' in r:
        s['b'] = r['body']
    if r.get('query'):
        s['q'] = r['query']
    return s


def replay(ctx, data):
    """Replay a violation file of the seq engine without the explorer."""
    modname, clsname, args = data['spec']
    spec = getattr(importlib.import_module(modname), clsname)(*args)
    base = make_base_image(conf_overrides=getattr(spec, 'conf', None))
    w = SeqWorker(modname, clsname, tuple(args), base)
    w.h.write_image(base)
    hist = data['history']
    for req in hist:
        w.call(req)
    pre = w.dump()
    sigs = []
    if data.get('final') is None:
        sigs = w.spec.on_state(pre, w.h, w.call)
    else:
        resp, run = w.call(data['final'])
        post = w.dump()
        sigs = list(w.spec.on_transition(pre, data['final'], resp, run, post))
        img = w.h.read_image()
        sigs += list(w.spec.on_state(post, w.h, w.call))
        w.h.write_image(img)
    for sig, msg in sigs:
        if sig == data['signature']:
            return False, 'reproduced: %s' % msg
    return True, 'signatures seen: %s' % [s for s, _ in sigs]
