"""Alphabet generators and transition oracles shared by the E-seq property specs.

All generators take the current dump `d` and instantiate generations *relative* to it
("current", "stale"), so canonical states need not contain generation values.
"""
from vp import reqs
from vp.names import A, K, P, UNKNOWN_UUID
from vp.snapshot import capacity, inv_consumer, inv_ref, overcommitted

V1 = {'total': 4, 'reserved': 1, 'min_unit': 1, 'max_unit': 2, 'step_size': 1,
      'allocation_ratio': 1.0}                                    # capacity 3, max_unit binds
V2 = {'total': 7, 'reserved': 0, 'min_unit': 2, 'max_unit': 4, 'step_size': 1,
      'allocation_ratio': 0.5}                                    # capacity 3.5: fractional, rounds UP under
#                                                                   round-half-even and ceil; min_unit binds
V3 = {'total': 6, 'step_size': 2}                                 # capacity 6, step binds, defaults
V4 = {'total': 2}                                                 # capacity 2, all defaults
VARIANTS = {'V1': V1, 'V2': V2, 'V3': V3, 'V4': V4}

STD_TRAIT = 'HW_CPU_X86_AVX'
CUSTOM_TRAIT = 'CUSTOM_T1'
CUSTOM_CLASS = 'CUSTOM_X'


def gen_of(d, rp, stale=False):
    g = d.providers[rp]['gen'] if rp in d.providers else 0
    return g + 1 if stale else g


def cgen_of(d, c, stale=False):
    if c in d.consumers:
        g = d.consumers[c]['gen']
        return g + 1 if stale else g
    return 7 if stale else None


def consumer_allocs(d, c):
    out = {}
    for (cu, rp, rc), amt in d.allocations.items():
        if cu == c:
            out.setdefault(rp, {})[rc] = amt
    return out


def is_alloc_write(req):
    p, m = req['path'], req['method']
    return ((m == 'PUT' and p.startswith('/allocations/')) or
            (m == 'POST' and p in ('/allocations', '/reshaper')))


def is_inventory_write(req):
    p, m = req['path'], req['method']
    return (('/inventories' in p and m in ('PUT', 'POST', 'DELETE')) or
            (m == 'POST' and p == '/reshaper'))


# ---------------------------------------------------------------------------------------------
# oracles
# ---------------------------------------------------------------------------------------------

def oracle_c01(pre, req, resp, post):
    """Capacity safety as a transition predicate (DESIGN 5.C01)."""
    v = []
    tag = req.get('tag')
    if is_alloc_write(req) and resp.status < 300:
        used = post.used()
        for c, placed in reqs.placed(req).items():
            for (rp, rc), amt in placed.items():
                if amt <= 0:
                    continue
                inv = post.inventories.get((rp, rc))
                if inv is None:
                    v.append(('c01-noinv:%s' % tag, 'accepted %s places %s of %s on %s which has '
                              'no such inventory' % (tag, amt, rc, rp)))
                    continue
                if amt < inv['min_unit'] or amt > inv['max_unit'] or amt % inv['step_size']:
                    v.append(('c01-unit:%s' % tag, 'accepted %s places %s of %s on %s violating '
                              'min/max/step %s/%s/%s' % (tag, amt, rc, rp, inv['min_unit'],
                                                         inv['max_unit'], inv['step_size'])))
                if used.get((rp, rc), 0) > capacity(inv):
                    v.append(('c01-cap:%s' % tag, 'after accepted %s usage of %s on %s is %s > '
                              'capacity %s' % (tag, rc, rp, used.get((rp, rc), 0),
                                               capacity(inv))))
    oc_pre, oc_post = overcommitted(pre), overcommitted(post)
    upre, upost = pre.used(), post.used()
    for k in oc_post:
        if k not in oc_pre:
            inv_changed = pre.inventories.get(k) != post.inventories.get(k)
            if not (inv_changed and is_inventory_write(req)):
                v.append(('c01-became-overcommitted:%s' % tag,
                          '%s/%s became over-committed (%s) by %s %s which did not change its '
                          'inventory' % (k[0], k[1], oc_post[k], req['method'], req['path'])))
        elif upost.get(k, 0) > upre.get(k, 0):
            v.append(('c01-grew-while-overcommitted:%s' % tag,
                      'usage of over-committed %s/%s grew %s -> %s by %s %s' % (
                          k[0], k[1], upre.get(k, 0), upost.get(k, 0), req['method'],
                          req['path'])))
    return v


def oracle_c04_rejected(pre, req, resp, post, tag=None):
    """status >= 400 => nothing but new project/user/consumer-type rows changed."""
    from vp.snapshot import diff
    v = []
    tag = tag or req.get('tag')
    if resp.status >= 400:
        if post.core(gens=True, class_ids=True) != pre.core(gens=True, class_ids=True) or \
                post.aggs != pre.aggs:
            v.append(('c04-trace:%s:%s' % (tag, resp.status),
                      'request %s %s answered %s left a trace: %s' % (
                          req['method'], req['path'], resp.status,
                          diff(pre, post, gens=True, aux=True))))
    return v


def oracle_effect(pre, req, resp, post):
    """2xx multi-entity writes took effect completely (what the request names is what is stored)."""
    v = []
    tag = req.get('tag')
    if resp.status >= 300:
        return v
    m, p = req['method'], req['path']
    body = req.get('body')
    if is_alloc_write(req):
        for c, placed in reqs.placed(req).items():
            got = {(rp, rc): amt for (cu, rp, rc), amt in post.allocations.items() if cu == c}
            if got != {k: a for k, a in placed.items() if a > 0}:
                v.append(('c04-partial-alloc:%s' % tag, 'accepted %s: consumer %s holds %s, '
                          'request said %s' % (tag, c, got, placed)))
    if (m == 'PUT' and p.endswith('/inventories')) or p == '/reshaper':
        items = {}
        if p == '/reshaper':
            for rp, x in body['inventories'].items():
                items[rp] = x['inventories']
        else:
            items[reqs.target_provider(req)] = body['inventories']
        for rp, invs in items.items():
            got = {rc for (r, rc) in post.inventories if r == rp}
            if got != set(invs):
                v.append(('c04-partial-inv:%s' % tag, 'accepted %s: provider %s has classes %s, '
                          'request said %s' % (tag, rp, sorted(got), sorted(invs))))
            for rc, inv in invs.items():
                st = post.inventories.get((rp, rc))
                if st is not None:
                    for f, val in inv.items():
                        if st[f] != val:
                            v.append(('c04-inv-field:%s' % tag, '%s/%s.%s stored %s, sent %s' % (
                                rp, rc, f, st[f], val)))
    if m == 'PUT' and p.endswith('/traits') and p.startswith('/resource_providers/'):
        rp = reqs.target_provider(req)
        got = {t for (r, t) in post.rp_traits if r == rp}
        if got != set(body['traits']):
            v.append(('c04-partial-traits:%s' % tag, 'accepted %s: provider has traits %s, '
                      'request said %s' % (tag, sorted(got), body['traits'])))
    if m == 'PUT' and p.endswith('/aggregates'):
        rp = reqs.target_provider(req)
        want = set(body['aggregates'] if isinstance(body, dict) else body)
        got = {a for (r, a) in post.rp_aggs if r == rp}
        if got != want:
            v.append(('c04-partial-aggs:%s' % tag, 'accepted %s: provider has aggregates %s, '
                      'request said %s' % (tag, sorted(got), sorted(want))))
    return v


def oracle_c08(pre, req, resp, post):
    v = []
    tag = req.get('tag')
    for m in inv_ref(post):
        v.append(('c08-dangling:%s' % tag, 'after %s %s (%s): %s' % (
            req['method'], req['path'], resp.status, m)))
    if req['method'] != 'DELETE':
        return v
    parts = req['path'].strip('/').split('/')
    expect = None      # (statuses, must_be_unchanged)
    if parts[0] == 'resource_providers' and len(parts) == 2:
        u = parts[1]
        if u in pre.providers:
            has_alloc = any(rp == u for (_, rp, _) in pre.allocations)
            has_child = any(p['parent'] == u for p in pre.providers.values())
            if has_alloc or has_child:
                expect = ({409}, True)
            else:
                expect = ({204}, False)
                if resp.status == 204:
                    left = [k for k in post.inventories if k[0] == ('?', pre.rp_ids[u])]
                    if u in post.providers or left:
                        v.append(('c08-delete-left:%s' % tag, 'provider delete left rows'))
        else:
            expect = ({404}, True)
    elif parts[0] == 'resource_providers' and len(parts) == 4 and parts[2] == 'inventories':
        u, rc = parts[1], parts[3]
        if u in pre.providers:
            if (u, rc) in pre.inventories:
                if any(rp == u and c == rc for (_, rp, c) in pre.allocations):
                    expect = ({409}, True)
                else:
                    expect = ({204}, False)
            else:
                expect = ({404}, True)
    elif parts[0] == 'resource_providers' and len(parts) == 3 and parts[2] == 'inventories':
        u = parts[1]
        if u in pre.providers:
            if any(rp == u for (_, rp, _) in pre.allocations):
                expect = ({409}, True)
            else:
                expect = ({204}, False)
    elif parts[0] == 'resource_classes' and len(parts) == 2:
        from vp.snapshot import STD_CLASS_SET
        n = parts[1]
        if n in STD_CLASS_SET:
            expect = ({400}, True)
        elif n in pre.classes:
            if any(rc == n for (_, rc) in pre.inventories):
                expect = ({409}, True)
            else:
                expect = ({204}, False)
        else:
            expect = ({404}, True)
    elif parts[0] == 'traits' and len(parts) == 2:
        from vp.snapshot import STD_TRAITS
        n = parts[1]
        if n in STD_TRAITS:
            expect = ({400}, True)
        elif n in pre.traits:
            if any(t == n for (_, t) in pre.rp_traits):
                expect = ({409}, True)
            else:
                expect = ({204}, False)
        else:
            expect = ({404}, True)
    if expect is not None:
        statuses, unchanged = expect
        if resp.status not in statuses:
            v.append(('c08-delete-status:%s:%s' % (tag, resp.status),
                      '%s %s answered %s, expected %s' % (req['method'], req['path'],
                                                          resp.status, sorted(statuses))))
        if unchanged and post.core(class_ids=True) != pre.core(class_ids=True):
            v.append(('c08-refused-changed:%s' % tag, 'refused %s %s changed state' % (
                req['method'], req['path'])))
    return v


def oracle_c10(pre, req, resp, post):
    """Generations move forward on every change and only then."""
    v = []
    tag = req.get('tag')
    pg0, cg0 = pre.gens()
    pg1, cg1 = post.gens()
    for u, g in pg1.items():
        if u in pg0 and pre.rp_ids.get(u) == post.rp_ids.get(u) and g < pg0[u]:
            v.append(('c10-decreased:%s' % tag, 'provider %s generation %s -> %s' % (u, pg0[u], g)))
    for c, g in cg1.items():
        if c in cg0 and g < cg0[c]:
            # a consumer removed and re-created inside one request starts again at its first
            # generation; only flag when the consumer existed throughout (same allocations rows
            # are not enough to tell, so compare via request kind)
            if not (is_alloc_write(req) and resp.status < 300):
                v.append(('c10-consumer-decreased:%s' % tag,
                          'consumer %s generation %s -> %s' % (c, cg0[c], g)))
    if req['method'] in ('GET', 'HEAD') or resp.status >= 400:
        if (pg0, cg0) != (pg1, cg1):
            v.append(('c10-readonly-changed:%s:%s' % (tag, resp.status),
                      '%s %s (%s) changed generations: %s -> %s' % (
                          req['method'], req['path'], resp.status, (pg0, cg0), (pg1, cg1))))
        return v
    # successful writes
    for u in pg1:
        if u not in pg0:
            continue
        inv_changed = ({k: i for k, i in pre.inventories.items() if k[0] == u} !=
                       {k: i for k, i in post.inventories.items() if k[0] == u})
        tr_changed = ({t for r, t in pre.rp_traits if r == u} !=
                      {t for r, t in post.rp_traits if r == u})
        ag_changed = ({a for r, a in pre.rp_aggs if r == u} !=
                      {a for r, a in post.rp_aggs if r == u})
        if ag_changed and reqs.ver(req.get('mv')) < (1, 19):
            ag_changed = False
        placed_on = any(rp == u and amt > 0 for pl in reqs.placed(req).values()
                        for (rp, _), amt in pl.items())
        why = [n for n, f in (('inventories', inv_changed), ('traits', tr_changed),
                              ('aggregates', ag_changed), ('allocation placed', placed_on)) if f]
        if why and not pg1[u] > pg0[u]:
            v.append(('c10-no-increment:%s:%s' % (tag, '+'.join(why)),
                      'successful %s %s changed %s of provider %s but its generation stayed %s'
                      % (req['method'], req['path'], why, u, pg0[u])))
    if is_alloc_write(req):
        for c in reqs.placed(req):
            if c in cg0 and c in cg1 and not cg1[c] > cg0[c]:
                v.append(('c10-consumer-no-increment:%s' % tag,
                          'successful %s wrote allocations of consumer %s but its generation '
                          'stayed %s' % (tag, c, cg0[c])))
    # generation returned by a write equals the one subsequently read
    j = resp.json
    if isinstance(j, dict):
        u = reqs.target_provider(req)
        rg = j.get('resource_provider_generation', j.get('generation') if 'uuid' in j else None)
        if 'uuid' in j:
            u = j['uuid']
        if rg is not None and u in pg1 and rg != pg1[u]:
            v.append(('c10-response-generation:%s' % tag,
                      'response of %s %s reports generation %s, stored is %s' % (
                          req['method'], req['path'], rg, pg1[u])))
    return v


def oracle_c12(pre, req, resp, post):
    v = []
    tag = req.get('tag')
    for m in inv_consumer(post):
        v.append(('c12-iff:%s:%s' % (tag, 'rejected' if resp.status >= 400 else 'ok'),
                  'after %s %s (%s): %s' % (req['method'], req['path'], resp.status, m)))
    return v


# ---------------------------------------------------------------------------------------------
# alphabet generators
# ---------------------------------------------------------------------------------------------

def inv_ops(d, provider_list, classes=('VCPU',), variants=('V1', 'V2', 'V3'), single=False,
            deletes=True, stale=False, mv='1.39'):
    out = []
    for rp in provider_list:
        if rp not in d.providers:
            continue
        g = gen_of(d, rp)
        have = {rc: i for (r, rc), i in d.inventories.items() if r == rp}
        for rc in classes:
            for vn in variants:
                invs = {c: _strip(i) for c, i in have.items() if c != rc}
                invs[rc] = dict(VARIANTS[vn])
                out.append(reqs.put_invs(rp, g, invs, mv=mv, tag='PUT inventories %s=%s' % (
                    rc, vn)))
                if single:
                    if rc in have:
                        out.append(reqs.put_inv(rp, rc, g, VARIANTS[vn], mv=mv,
                                                tag='PUT inventory %s=%s' % (rc, vn)))
                    else:
                        out.append(reqs.post_inv(rp, rc, VARIANTS[vn], mv=mv,
                                                 tag='POST inventory %s=%s' % (rc, vn)))
            if deletes and rc in have:
                out.append(reqs.del_inv(rp, rc, mv=mv, tag='DELETE inventory %s' % rc))
                invs = {c: _strip(i) for c, i in have.items() if c != rc}
                out.append(reqs.put_invs(rp, g, invs, mv=mv, tag='PUT inventories drop %s' % rc))
        if deletes and have:
            out.append(reqs.del_invs(rp, mv=mv, tag='DELETE inventories'))
        if stale:
            out.append(reqs.put_invs(rp, g + 1, {classes[0]: dict(V3)}, mv=mv,
                                     tag='PUT inventories stale'))
    return out


def _strip(inv):
    return {k: inv[k] for k in ('total', 'reserved', 'min_unit', 'max_unit', 'step_size',
                                'allocation_ratio')}


def general_alphabet(d, nprov=2, consumers=(K(1), K(2)), custom_class=True, custom_trait=True,
                     provider_ops=True, aggregates=True, renames=False, old_aggs=False,
                     noop_writes=False, stale=False, reshaper_ops=True, post_allocs=True,
                     single_inv=False):
    """A broad write alphabet over a small world: every write route appears at least once.

    Providers P1 (root) and P2 (child of P1 when created under it), classes VCPU and CUSTOM_X,
    trait CUSTOM_T1 (+ one standard trait), aggregates A1/A2, consumers K1/K2.
    """
    from vp.http import R
    out = []
    provs = [P(i) for i in range(1, nprov + 1)]
    if provider_ops:
        if P(1) not in d.providers:
            out.append(reqs.mk_rp(1, tag='POST rp P1'))
        if P(2) not in d.providers and nprov >= 2:
            out.append(reqs.mk_rp(2, tag='POST rp P2 root'))
            if P(1) in d.providers:
                out.append(reqs.mk_rp(2, parent=P(1), tag='POST rp P2 child of P1'))
        for rp in provs:
            out.append(reqs.del_rp(rp, tag='DELETE rp'))
    if renames and P(1) in d.providers:
        cur = d.providers[P(1)]['name']
        out.append(R('PUT', '/resource_providers/' + P(1),
                     {'name': 'rp1' if cur != 'rp1' else 'rp1-renamed'}, tag='PUT rp rename'))
        if P(2) in d.providers and d.providers[P(2)]['parent'] is None:
            out.append(R('PUT', '/resource_providers/' + P(2),
                         {'name': d.providers[P(2)]['name'], 'parent_provider_uuid': P(1)},
                         tag='PUT rp re-parent'))
    if custom_class:
        out.append(reqs.post_class(CUSTOM_CLASS, tag='POST class'))
        out.append(reqs.del_class(CUSTOM_CLASS, tag='DELETE class custom'))
        out.append(reqs.del_class('VCPU', tag='DELETE class standard'))
    if custom_trait:
        out.append(reqs.put_trait(CUSTOM_TRAIT, tag='PUT trait'))
        out.append(reqs.del_trait(CUSTOM_TRAIT, tag='DELETE trait custom'))
        out.append(reqs.del_trait(STD_TRAIT, tag='DELETE trait standard'))
    four = {'total': 4}
    for rp in provs:
        if rp not in d.providers:
            continue
        g = gen_of(d, rp)
        have = {rc for (r, rc) in d.inventories if r == rp}
        out.append(reqs.put_invs(rp, g, {'VCPU': four}, tag='PUT inventories {VCPU}'))
        if custom_class:
            out.append(reqs.put_invs(rp, g, {'VCPU': four, CUSTOM_CLASS: four},
                                     tag='PUT inventories {VCPU,CUSTOM_X}'))
            out.append(reqs.put_invs(rp, g, {CUSTOM_CLASS: four},
                                     tag='PUT inventories {CUSTOM_X}'))
        out.append(reqs.put_invs(rp, g, {}, tag='PUT inventories {}'))
        if stale:
            out.append(reqs.put_invs(rp, g + 1, {'VCPU': four}, tag='PUT inventories stale'))
        for rc in ('VCPU',) + ((CUSTOM_CLASS,) if custom_class else ()):
            out.append(reqs.del_inv(rp, rc, tag='DELETE inventory %s' % rc))
            if single_inv:
                if rc in have:
                    out.append(reqs.put_inv(rp, rc, g, {'total': 5}, tag='PUT inventory ' + rc))
                else:
                    out.append(reqs.post_inv(rp, rc, {'total': 5}, tag='POST inventory ' + rc))
        out.append(reqs.del_invs(rp, tag='DELETE inventories'))
        cur_traits = sorted(t for (r, t) in d.rp_traits if r == rp)
        if custom_trait:
            out.append(reqs.put_traits(rp, g, [CUSTOM_TRAIT], tag='PUT rp traits [custom]'))
        out.append(reqs.put_traits(rp, g, [STD_TRAIT], tag='PUT rp traits [std]'))
        out.append(reqs.put_traits(rp, g, [], tag='PUT rp traits []'))
        if noop_writes:
            out.append(reqs.put_traits(rp, g, cur_traits, tag='PUT rp traits same'))
        if stale:
            out.append(reqs.put_traits(rp, g + 1, [STD_TRAIT], tag='PUT rp traits stale'))
        out.append(reqs.del_traits(rp, tag='DELETE rp traits'))
        if aggregates:
            out.append(reqs.put_aggs(rp, g, [A(1)], tag='PUT aggregates [A1]'))
            out.append(reqs.put_aggs(rp, g, [A(1), A(2)], tag='PUT aggregates [A1,A2]'))
            out.append(reqs.put_aggs(rp, g, [], tag='PUT aggregates []'))
            if old_aggs:
                out.append(reqs.put_aggs(rp, g, [A(2)], mv='1.18', tag='PUT aggregates@1.18 [A2]'))
            if stale:
                out.append(reqs.put_aggs(rp, g + 1, [A(1)], tag='PUT aggregates stale'))
    for k in consumers:
        cg = cgen_of(d, k)
        out.append(reqs.put_alloc(k, {P(1): {'VCPU': 1}}, cgen=cg, tag='PUT alloc P1:VCPU'))
        out.append(reqs.put_alloc(k, {P(1): {'VCPU': 3}}, cgen=cg, tag='PUT alloc P1:VCPU*3'))
        if custom_class:
            out.append(reqs.put_alloc(k, {P(1): {CUSTOM_CLASS: 1}}, cgen=cg,
                                      tag='PUT alloc P1:CUSTOM_X'))
        if nprov >= 2:
            out.append(reqs.put_alloc(k, {P(2): {'VCPU': 1}}, cgen=cg, tag='PUT alloc P2:VCPU'))
            out.append(reqs.put_alloc(k, {P(1): {'VCPU': 1}, P(2): {'VCPU': 1}}, cgen=cg,
                                      tag='PUT alloc P1+P2'))
        out.append(reqs.put_alloc(k, {}, cgen=cg, tag='PUT alloc {}'))
        if stale:
            out.append(reqs.put_alloc(k, {P(1): {'VCPU': 1}}, cgen=cgen_of(d, k, stale=True),
                                      tag='PUT alloc stale consumer generation'))
        out.append(reqs.del_alloc(k, tag='DELETE alloc'))
    if post_allocs and len(consumers) >= 2:
        k1, k2 = consumers[0], consumers[1]
        out.append(reqs.post_allocs(
            {k1: {'allocs': {P(1): {'VCPU': 1}}, 'cgen': cgen_of(d, k1)},
             k2: {'allocs': {P(1): {'VCPU': 1}}, 'cgen': cgen_of(d, k2)}},
            tag='POST allocs K1,K2 on P1'))
        out.append(reqs.post_allocs(
            {k1: {'allocs': {}, 'cgen': cgen_of(d, k1)},
             k2: {'allocs': {P(1): {'VCPU': 2}}, 'cgen': cgen_of(d, k2)}},
            tag='POST allocs K1 empty, K2 on P1'))
    if reshaper_ops and P(1) in d.providers and custom_class:
        # remove VCPU from P1, moving its consumers' VCPU onto CUSTOM_X
        moved = {}
        for k in consumers:
            al = consumer_allocs(d, k)
            if P(1) in al and 'VCPU' in al[P(1)]:
                new = {rp: dict(r) for rp, r in al.items()}
                amt = new[P(1)].pop('VCPU')
                new[P(1)][CUSTOM_CLASS] = new[P(1)].get(CUSTOM_CLASS, 0) + amt
                moved[k] = {'allocs': new, 'cgen': cgen_of(d, k)}
        out.append(reqs.reshaper({P(1): (gen_of(d, P(1)), {CUSTOM_CLASS: four})}, moved,
                                 tag='reshaper VCPU->CUSTOM_X on P1'))
        out.append(reqs.reshaper({P(1): (gen_of(d, P(1)), {CUSTOM_CLASS: four})}, {},
                                 tag='reshaper drop VCPU, move nobody'))
    return out
