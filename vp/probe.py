"""Interposition layer: SQLAlchemy engine events give a per-request log of transactions and
statements, scheduling points (top-level transaction begins), fault and crash injection points
and (optionally) exact per-transaction read/write table sets via the SQLite authorizer.

All of it lives on the harness side; /repo is not touched.
"""
import re

from sqlalchemy import event

SQLITE_DELETE, SQLITE_INSERT, SQLITE_READ, SQLITE_UPDATE = 9, 18, 20, 23


class SimulatedCrash(BaseException):
    """The process died. Nothing in placement/oslo/webob catches BaseException."""


class Txn(object):
    __slots__ = ('stmts', 'outcome', 'reads', 'writes', 'first', 'nested')

    def __init__(self, first):
        self.stmts = []
        self.outcome = None
        self.reads = set()
        self.writes = set()
        self.first = first       # index of its first statement in run.stmts
        self.nested = 0          # number of nested independent transactions


class Run(object):
    """Observation log of one request (or one start-up sync)."""

    def __init__(self, name=None):
        self.name = name
        self.txns = []           # top-level transactions, in order
        self.stmts = []          # (sql, params) over the whole request
        self.open = []           # stack of open connections (ids)
        self.dead = False
        # hooks (set by engines)
        self.on_begin = None     # f(run)  -- top-level begin: scheduling point
        self.on_stmt = None      # f(run, k, sql, params, conn) -- may raise
        self.on_after_stmt = None  # f(run, k, sql, conn) -- may raise
        self.on_commit = None    # f(run, j, phase, conn) phase in ('before','after')
        self.on_end_txn = None   # f(run, txn)
        self.ncommit = 0

    def wrote(self):
        return any(t.writes for t in self.txns)

    def digest(self):
        return [(len(t.stmts), t.outcome, sorted(t.writes)) for t in self.txns]


_WRITE_RE = re.compile(r'^\s*(INSERT|UPDATE|DELETE|REPLACE)', re.I)
_TABLE_RE = re.compile(r'^\s*(?:INSERT\s+(?:OR\s+\w+\s+)?INTO|UPDATE|DELETE\s+FROM)\s+"?(\w+)"?',
                       re.I)


class Probe(object):
    def __init__(self, harness, authorizer=False):
        self.h = harness
        self.cur = None
        self.use_auth = authorizer
        eng = harness.engine
        event.listen(eng, 'begin', self._begin)
        event.listen(eng, 'commit', self._commit)
        event.listen(eng, 'rollback', self._rollback)
        event.listen(eng, 'before_cursor_execute', self._before)
        event.listen(eng, 'after_cursor_execute', self._after)
        if authorizer:
            event.listen(eng, 'connect', self._connect)
        self.locked_errors = 0

    # -- authorizer --------------------------------------------------------------------
    def _connect(self, dbapi_conn, rec):
        def auth(action, a1, a2, db, src):
            run = self.cur
            if run is not None and run.txns:
                t = run.txns[-1]
                if action == SQLITE_READ:
                    t.reads.add(a1)
                elif action in (SQLITE_INSERT, SQLITE_UPDATE, SQLITE_DELETE):
                    if a1 != 'sqlite_master':
                        t.writes.add(a1)
            return 0
        dbapi_conn.set_authorizer(auth)

    # -- events ------------------------------------------------------------------------
    def _begin(self, conn):
        run = self.cur
        if run is None:
            return
        if run.dead:
            raise SimulatedCrash()
        if not run.open:
            if run.on_begin is not None:
                run.on_begin(run)        # may switch greenlets; self.cur restored by scheduler
            run.txns.append(Txn(len(run.stmts)))
        else:
            run.txns[-1].nested += 1
        run.open.append(id(conn))

    def _end(self, conn, outcome):
        run = self.cur
        if run is None:
            return
        cid = id(conn)
        if cid in run.open:
            run.open.remove(cid)
            if not run.open and run.txns:
                t = run.txns[-1]
                if t.outcome is None:
                    t.outcome = outcome
                    if run.on_end_txn is not None:
                        run.on_end_txn(run, t)

    def _commit(self, conn):
        run = self.cur
        if run is None:
            return
        top = len(run.open) == 1 and run.open[0] == id(conn)
        if top and run.on_commit is not None and not run.dead:
            run.on_commit(run, run.ncommit, 'before', conn)
        if top:
            run.ncommit += 1
        self._end(conn, 'commit')

    def _rollback(self, conn):
        self._end(conn, 'rollback')

    def _before(self, conn, cursor, statement, parameters, context, executemany):
        run = self.cur
        if run is None:
            return
        if run.dead:
            raise SimulatedCrash()
        k = len(run.stmts)
        run.stmts.append((statement, _plain(parameters)))
        if run.txns:
            t = run.txns[-1]
            t.stmts.append(k)
            if not self.use_auth and _WRITE_RE.match(statement):
                m = _TABLE_RE.match(statement)
                t.writes.add(m.group(1) if m else '?')
        if run.on_stmt is not None:
            run.on_stmt(run, k, statement, parameters, conn)


    def _after(self, conn, cursor, statement, parameters, context, executemany):
        run = self.cur
        if run is None or run.on_after_stmt is None or run.dead:
            return
        run.on_after_stmt(run, len(run.stmts) - 1, statement, conn)


def _plain(p):
    if isinstance(p, (list, tuple)):
        return [_plain(x) for x in p]
    if isinstance(p, dict):
        return {k: _plain(v) for k, v in p.items()}
    if isinstance(p, (int, float, str, type(None))):
        return p
    return str(p)


def is_write(sql):
    return bool(_WRITE_RE.match(sql))
