"""Fixed name pools shared by all checks."""

def P(i):
    return '00000000-0000-4000-8000-%012d' % i          # provider uuids P(1)...

def K(i):
    return 'cccccccc-0000-4000-8000-%012d' % i          # consumer uuids

def A(i):
    return 'aaaaaaaa-0000-4000-8000-%012d' % i          # aggregate uuids

UNKNOWN_UUID = 'ffffffff-ffff-4fff-8fff-ffffffffffff'

def pname(i):
    return 'rp%d' % i

SHARING = 'MISC_SHARES_VIA_AGGREGATE'
