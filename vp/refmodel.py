"""RefPlacement -- a boring reference model of the placement REST API (DESIGN 4.1).

Plain Python dicts and sets; one planning method per API operation. Written from
/repo/api-ref/source/*.inc, parameters.yaml, /repo/placement/rest_api_version_history.rst and
the property statements in /verif/properties.jsonl -- NOT from the handlers.

    m = RefPlacement.from_dump(dump)          # abstraction function (start state only)
    out = m.plan(req)                         # -> Outcome, model unchanged
    m.step(req, observed_status, post_dump)   # lock-step: resynchronise on the status class
    statuses, body = m.apply(req)             # stand-alone use (no implementation involved)

Two rules keep the model from demanding more than the documentation states:
 (1) when several rejection reasons apply at once any of their statuses is acceptable; when
     exactly one applies exactly its statuses are; where the documentation names the error
     condition but not its status the reason carries the set the route's documented "Error
     response codes" allow (listed in UNPINNED);
 (2) implementation-only failures (database faults, races) are not in it.
Generation *numbers* are not predicted: the model says which generations must strictly
increase (C10's relations); the driver reads the numbers back from the dump.
"""
import json
import re
from urllib.parse import parse_qsl

from vp.snapshot import STD_CLASS_SET, STD_TRAITS

INV_FIELDS = ('total', 'reserved', 'min_unit', 'max_unit', 'step_size', 'allocation_ratio')
INV_DEFAULTS = {'reserved': 0, 'min_unit': 1, 'max_unit': 2147483647, 'step_size': 1,
                'allocation_ratio': 1.0}
PLACEHOLDER = '00000000-0000-0000-0000-000000000000'   # [placement]incomplete_consumer_*_id
MAX_VERSION = (1, 39)

UUID_RE = re.compile(r'^[0-9a-f]{8}-[0-9a-f]{4}-[0-9a-f]{4}-[0-9a-f]{4}-[0-9a-f]{12}$')
CUSTOM_RE = re.compile(r'^CUSTOM_[A-Z0-9_]+$')
CTYPE_RE = re.compile(r'^[A-Z0-9_]+$')

# error conditions the documentation names without pinning their status: the set is what the
# route's "Error response codes" line admits for a client error of that kind
UNPINNED = {
    'PUT /allocations: provider or class named in the body does not exist': (400, 404),
    'PUT /allocations/{c}: malformed consumer uuid in the path': (400, 404),
    'PUT .../inventories/{rc}: provider has no inventory of that class / unknown class': (400, 404),
    'POST|PUT /resource_providers: missing parent, loop, re-parent before 1.37': (400, 409),
    'PUT /traits/{standard name}, PUT /resource_classes/{standard name}': (204, 400),
    'POST /allocations below 1.13 (route or method not yet introduced)': (404, 405),
    'allocation write that lowers, but does not cure, the usage of an over-committed '
    'inventory': (204, 409),
}


class NotModelled(Exception):
    """The documentation does not determine the answer to this request."""


def ver(mv):
    if mv is None:
        return (1, 0)
    if mv == 'latest':
        return MAX_VERSION
    a, b = mv.split('.')
    return (int(a), int(b))


def is_uuid(s):
    return isinstance(s, str) and bool(UUID_RE.match(s))


def uuid_like(s):
    """What the request schemas' `format: uuid` accepts (oslo_utils.uuidutils.is_uuid_like): the
    canonical spelling, upper case, without dashes, in braces or as a urn."""
    import uuid
    if not isinstance(s, str):
        return None
    t = s.replace('urn:', '').replace('uuid:', '').strip('{}').replace('-', '').lower()
    try:
        if str(uuid.UUID(s)).replace('-', '') == t:
            return str(uuid.UUID(s))
    except (TypeError, ValueError, AttributeError):
        pass
    return None


def is_int(x):
    return isinstance(x, int) and not isinstance(x, bool)


def is_num(x):
    return isinstance(x, (int, float)) and not isinstance(x, bool)


def capacity(inv):
    return (inv['total'] - inv['reserved']) * float(inv['allocation_ratio'])


def norm(x):
    """Normal form of a JSON body: links dropped, every list treated as a set."""
    if isinstance(x, dict):
        return {k: norm(v) for k, v in x.items() if k != 'links'}
    if isinstance(x, (list, tuple, set, frozenset)):
        items = [norm(i) for i in x]
        return sorted(items, key=lambda i: json.dumps(i, sort_keys=True))
    return x


class Outcome(object):
    """What the documentation prescribes for one request in one state."""

    def __init__(self, op):
        self.op = op                  # route template, e.g. 'PUT /allocations/{c}'
        self.ok = None                # the success status
        self.reasons = []             # [(text, statuses)] definite rejection reasons
        self.maybes = []              # [(text, statuses)] the documentation allows either way
        self.effect = None            # callable applying the state change
        self.body = None              # callable -> expected body (evaluated after the effect)
        self.bump_rps = set()         # provider generations that must strictly increase
        self.bump_consumers = set()   # consumer generations that must strictly increase
        self.check_body = True
        self.schema_bad = False       # the request violates the documented request format

    def reject(self, text, *statuses):
        self.reasons.append((text, tuple(statuses)))

    def schema(self, text):
        """A violation of the documented request format: 400, and nothing else can be judged."""
        self.schema_bad = True
        self.reasons.append((text, (400,)))

    def maybe(self, text, *statuses):
        self.maybes.append((text, tuple(statuses)))

    @property
    def statuses(self):
        if self.reasons:
            s = set()
            for _, st in self.reasons:
                s.update(st)
            return s
        s = {self.ok}
        for _, st in self.maybes:
            s.update(st)
        return s

    def why(self):
        return '; '.join(t for t, _ in self.reasons + self.maybes) or 'valid request'


class RefPlacement(object):
    def __init__(self, placeholder=(PLACEHOLDER, PLACEHOLDER)):
        self.providers = {}        # uuid -> {'name', 'parent', 'gen'}
        self.inventories = {}      # (rp, rc) -> {6 fields}
        self.allocations = {}      # (consumer, rp, rc) -> used
        self.consumers = {}        # uuid -> {'project', 'user', 'type', 'gen'}
        self.custom_traits = set()
        self.custom_classes = set()
        self.rp_traits = set()     # (rp, trait)
        self.rp_aggs = set()       # (rp, aggregate uuid)
        self.placeholder = placeholder

    # ------------------------------------------------------------------------------------
    # abstraction function and comparison
    # ------------------------------------------------------------------------------------
    @classmethod
    def from_dump(cls, d, placeholder=(PLACEHOLDER, PLACEHOLDER)):
        m = cls(placeholder)
        for u, p in d.providers.items():
            m.providers[u] = {'name': p['name'], 'parent': p['parent'], 'gen': p['gen']}
        for k, inv in d.inventories.items():
            m.inventories[k] = dict(inv)
        m.allocations = dict(d.allocations)
        for c, x in d.consumers.items():
            m.consumers[c] = {'project': x['project'], 'user': x['user'], 'type': x['type'],
                              'gen': x['gen']}
        m.custom_traits = set(d.custom_traits())
        m.custom_classes = set(d.custom_classes())
        m.rp_traits = set(d.rp_traits)
        m.rp_aggs = set(d.rp_aggs)
        return m

    def as_core(self):
        return {
            'providers': {u: (p['name'], p['parent'], self.root(u))
                          for u, p in self.providers.items()},
            'inventories': {k: tuple(inv[f] for f in INV_FIELDS)
                            for k, inv in self.inventories.items()},
            'allocations': dict(self.allocations),
            'consumers': {c: (x['project'], x['user'], x['type'])
                          for c, x in self.consumers.items()},
            'rp_traits': set(self.rp_traits),
            'rp_aggs': set(self.rp_aggs),
            'custom_classes': set(self.custom_classes),
            'custom_traits': set(self.custom_traits),
            'missing_standard': set(),
        }

    @staticmethod
    def core_of_dump(d):
        """The same fields read from the real rows (root = the stored root pointer)."""
        return {
            'providers': {u: (p['name'], p['parent'], p['root']) for u, p in d.providers.items()},
            'inventories': {k: tuple(inv[f] for f in INV_FIELDS)
                            for k, inv in d.inventories.items()},
            'allocations': dict(d.allocations),
            'consumers': {c: (x['project'], x['user'], x['type'])
                          for c, x in d.consumers.items()},
            'rp_traits': set(d.rp_traits),
            'rp_aggs': set(d.rp_aggs),
            'custom_classes': set(d.custom_classes()),
            'custom_traits': set(d.custom_traits()),
            'missing_standard': (set(STD_TRAITS) - set(d.traits)) |
                                (STD_CLASS_SET - set(d.classes)),
        }

    @staticmethod
    def diff_core(want, got):
        """[(section, text)] for every section in which model and rows differ."""
        out = []
        for sec in sorted(want):
            a, b = want[sec], got[sec]
            if a == b:
                continue
            if isinstance(a, dict):
                ks = sorted(set(a) | set(b), key=repr)
                bits = ['%s: model %r rows %r' % (k, a.get(k), b.get(k)) for k in ks
                        if a.get(k) != b.get(k)]
            else:
                bits = ['only in model %r' % sorted(a - b, key=repr),
                        'only in rows %r' % sorted(b - a, key=repr)]
            out.append((sec, '; '.join(bits[:4])))
        return out

    def read_back_generations(self, d):
        for u, p in self.providers.items():
            if u in d.providers:
                p['gen'] = d.providers[u]['gen']
        for c, x in self.consumers.items():
            if c in d.consumers:
                x['gen'] = d.consumers[c]['gen']

    # ------------------------------------------------------------------------------------
    # derived notions
    # ------------------------------------------------------------------------------------
    def root(self, u):
        seen = set()
        while u in self.providers and self.providers[u]['parent'] is not None and u not in seen:
            seen.add(u)
            u = self.providers[u]['parent']
        return u

    def descendants(self, u):
        out, todo = set(), [u]
        while todo:
            x = todo.pop()
            for c, p in self.providers.items():
                if p['parent'] == x and c not in out:
                    out.add(c)
                    todo.append(c)
        return out

    def class_exists(self, rc):
        return rc in STD_CLASS_SET or rc in self.custom_classes

    def trait_exists(self, t):
        return t in STD_TRAITS or t in self.custom_traits

    def used(self, rp, rc, allocations=None):
        al = self.allocations if allocations is None else allocations
        return sum(a for (c, r, k), a in al.items() if r == rp and k == rc)

    # ------------------------------------------------------------------------------------
    # read views (what a GET must report), used for read probes and for write responses
    # ------------------------------------------------------------------------------------
    def view_provider(self, u, v):
        p = self.providers[u]
        out = {'uuid': u, 'name': p['name'], 'generation': p['gen']}
        if v >= (1, 14):
            out['parent_provider_uuid'] = p['parent']
            out['root_provider_uuid'] = self.root(u)
        return out

    def view_providers(self, v, name=None, uuid=None, in_tree=None):
        sel = []
        for u, p in self.providers.items():
            if name is not None and p['name'] != name:
                continue
            if uuid is not None and u != uuid:
                continue
            if in_tree is not None and (in_tree not in self.providers or
                                        self.root(u) != self.root(in_tree)):
                continue
            sel.append(self.view_provider(u, v))
        return {'resource_providers': sel}

    def view_inventory(self, u, rc):
        out = dict(self.inventories[(u, rc)])
        out['resource_provider_generation'] = self.providers[u]['gen']
        return out

    def view_inventories(self, u):
        return {'resource_provider_generation': self.providers[u]['gen'],
                'inventories': {rc: dict(inv) for (r, rc), inv in self.inventories.items()
                                if r == u}}

    def view_rp_usages(self, u):
        us = {}
        for (c, r, rc), a in self.allocations.items():
            if r == u:
                us[rc] = us.get(rc, 0) + a
        return {'resource_provider_generation': self.providers[u]['gen'], 'usages': us}

    def view_aggregates(self, u, v):
        out = {'aggregates': sorted(a for (r, a) in self.rp_aggs if r == u)}
        if v >= (1, 19):
            out['resource_provider_generation'] = self.providers[u]['gen']
        return out

    def view_rp_traits(self, u):
        return {'traits': sorted(t for (r, t) in self.rp_traits if r == u),
                'resource_provider_generation': self.providers[u]['gen']}

    def view_rp_allocations(self, u, v):
        al = {}
        for (c, r, rc), a in self.allocations.items():
            if r == u:
                e = al.setdefault(c, {'resources': {}})
                e['resources'][rc] = a
                if v >= (1, 28):     # rest_api_version_history 1.28
                    e['consumer_generation'] = self.consumers[c]['gen']
        return {'allocations': al, 'resource_provider_generation': self.providers[u]['gen']}

    def view_consumer(self, c, v):
        al = {}
        for (cu, r, rc), a in self.allocations.items():
            if cu == c:
                e = al.setdefault(r, {'generation': self.providers[r]['gen'], 'resources': {}})
                e['resources'][rc] = a
        out = {'allocations': al}
        if not al:
            return out
        x = self.consumers[c]
        if v >= (1, 12):
            out['project_id'] = x['project']
            out['user_id'] = x['user']
        if v >= (1, 28):
            out['consumer_generation'] = x['gen']
        if v >= (1, 38):
            out['consumer_type'] = x['type'] if x['type'] is not None else 'unknown'
        return out

    def view_usages(self, v, project, user=None, ctype=None):
        groups = {}
        for c, x in self.consumers.items():
            if x['project'] != project or (user is not None and x['user'] != user):
                continue
            t = x['type'] if x['type'] is not None else 'unknown'
            if v >= (1, 38):
                if ctype == 'all':
                    t = 'all'
                elif ctype is not None and ctype != t:
                    continue
            else:
                t = None
            g = groups.setdefault(t, {'consumer_count': 0})
            g['consumer_count'] += 1
            for (cu, r, rc), a in self.allocations.items():
                if cu == c:
                    g[rc] = g.get(rc, 0) + a
        if v >= (1, 38):
            return {'usages': groups}
        g = groups.get(None, {})
        g.pop('consumer_count', None)
        return {'usages': g}

    def view_traits(self, name=None, associated=None):
        ts = set(STD_TRAITS) | self.custom_traits
        if name is not None:
            if name.startswith('in:'):
                ts &= set(name[3:].split(','))
            elif name.startswith('startswith:'):
                ts = {t for t in ts if t.startswith(name[len('startswith:'):])}
        if associated is not None:
            assoc = {t for (_, t) in self.rp_traits}
            ts = ts & assoc if associated else ts - assoc
        return {'traits': sorted(ts)}

    def view_classes(self):
        return {'resource_classes': [{'name': n} for n in
                                     sorted(STD_CLASS_SET | self.custom_classes)]}

    # ------------------------------------------------------------------------------------
    # driver interface
    # ------------------------------------------------------------------------------------
    def step(self, req, observed_status, post=None):
        """Lock-step: plan, then resynchronise on the observed status class."""
        out = self.plan(req)
        if observed_status in out.statuses and 200 <= observed_status < 300 and out.effect:
            out.effect()
        if post is not None:
            self.read_back_generations(post)
        return out

    def apply(self, req):
        """Stand-alone: (acceptable statuses, expected body or None); updates the state when the
        request is successful per the model (bumped generations are incremented by one)."""
        out = self.plan(req)
        body = None
        if not out.reasons and out.ok is not None:
            if out.effect:
                out.effect()
            for u in out.bump_rps:
                if u in self.providers:
                    self.providers[u]['gen'] += 1
            for c in out.bump_consumers:
                if c in self.consumers:
                    self.consumers[c]['gen'] += 1
            if out.body:
                body = norm(out.body())
        return out.statuses, body

    # ------------------------------------------------------------------------------------
    # request planning
    # ------------------------------------------------------------------------------------
    def plan(self, req):
        m = req['method']
        v = ver(req.get('mv'))
        segs = [s for s in req['path'].split('/') if s != '']
        query = parse_qsl(req.get('query') or '', keep_blank_values=True)
        body, body_ok = self._body(req)
        n = len(segs)
        if n == 0 and m == 'GET':
            return self._root()
        head = segs[0] if segs else ''
        if head == 'resource_providers':
            if n == 1:
                if m == 'GET':
                    return self._list_providers(v, query)
                if m == 'POST':
                    return self._create_provider(v, body, body_ok)
            elif n == 2:
                if m == 'GET':
                    return self._show_provider(v, segs[1])
                if m == 'PUT':
                    return self._update_provider(v, segs[1], body, body_ok)
                if m == 'DELETE':
                    return self._delete_provider(v, segs[1])
            elif n == 3:
                u, sub = segs[1], segs[2]
                if sub == 'inventories':
                    if m == 'GET':
                        return self._get(v, 'GET /resource_providers/{u}/inventories', u,
                                         lambda: self.view_inventories(u))
                    if m == 'PUT':
                        return self._put_inventories(v, u, body, body_ok)
                    if m == 'DELETE':
                        return self._delete_inventories(v, u)
                elif sub == 'usages' and m == 'GET':
                    return self._get(v, 'GET /resource_providers/{u}/usages', u,
                                     lambda: self.view_rp_usages(u))
                elif sub == 'allocations' and m == 'GET':
                    return self._get(v, 'GET /resource_providers/{u}/allocations', u,
                                     lambda: self.view_rp_allocations(u, v))
                elif sub == 'aggregates':
                    if m == 'GET':
                        return self._get(v, 'GET /resource_providers/{u}/aggregates', u,
                                         lambda: self.view_aggregates(u, v), since=(1, 1))
                    if m == 'PUT':
                        return self._put_aggregates(v, u, body, body_ok)
                elif sub == 'traits':
                    if m == 'GET':
                        return self._get(v, 'GET /resource_providers/{u}/traits', u,
                                         lambda: self.view_rp_traits(u), since=(1, 6))
                    if m == 'PUT':
                        return self._put_rp_traits(v, u, body, body_ok)
                    if m == 'DELETE':
                        return self._delete_rp_traits(v, u)
            elif n == 4 and segs[2] == 'inventories':
                u, rc = segs[1], segs[3]
                if m == 'GET':
                    return self._show_inventory(v, u, rc)
                if m == 'PUT':
                    return self._put_inventory(v, u, rc, body, body_ok)
                if m == 'DELETE':
                    return self._delete_inventory(v, u, rc)
        elif head == 'resource_classes':
            if n == 1 and m == 'GET':
                return self._simple_get(v, 'GET /resource_classes', (1, 2), self.view_classes)
            if n == 1 and m == 'POST':
                return self._create_class(v, body, body_ok)
            if n == 2:
                if m == 'GET':
                    return self._show_class(v, segs[1])
                if m == 'PUT':
                    return self._put_class(v, segs[1], body, body_ok, 'body' in req or
                                           'raw' in req)
                if m == 'DELETE':
                    return self._delete_class(v, segs[1])
        elif head == 'traits':
            if n == 1 and m == 'GET':
                return self._list_traits(v, query)
            if n == 2:
                if m == 'GET':
                    return self._show_trait(v, segs[1])
                if m == 'PUT':
                    return self._put_trait(v, segs[1])
                if m == 'DELETE':
                    return self._delete_trait(v, segs[1])
        elif head == 'allocations':
            if n == 1 and m == 'POST':
                return self._post_allocations(v, body, body_ok)
            if n == 2:
                if m == 'GET':
                    c = segs[1]
                    return self._simple_get(v, 'GET /allocations/{c}', (1, 0),
                                            lambda: self.view_consumer(c, v))
                if m == 'PUT':
                    return self._put_allocations(v, segs[1], body, body_ok)
                if m == 'DELETE':
                    return self._delete_allocations(v, segs[1])
        elif head == 'usages' and n == 1 and m == 'GET':
            return self._get_usages(v, query)
        elif head == 'reshaper' and n == 1 and m == 'POST':
            return self._reshaper(v, body, body_ok)
        elif head == 'allocation_candidates' and n == 1 and m == 'GET':
            return self._allocation_candidates(v, query)
        raise NotModelled('%s %s' % (m, req['path']))

    @staticmethod
    def _body(req):
        if 'raw' in req:
            raw = req['raw']
            try:
                return json.loads(raw if isinstance(raw, str) else raw.decode('utf-8')), True
            except Exception:
                return None, False
        return req.get('body'), True

    # -- helpers -------------------------------------------------------------------------
    def _get(self, v, op, u, view, since=(1, 0)):
        out = Outcome(op)
        out.ok = 200
        if v < since:
            out.reject('route introduced in %d.%d' % since, 404)
            return out
        if u not in self.providers:
            out.reject('no such resource provider', 404)
            return out
        out.body = view
        return out

    def _simple_get(self, v, op, since, view):
        out = Outcome(op)
        out.ok = 200
        if v < since:
            out.reject('route introduced in %d.%d' % since, 404)
            return out
        out.body = view
        return out

    def _root(self):
        out = Outcome('GET /')
        out.ok = 200
        out.body = lambda: {'versions': [{'id': 'v1.0', 'min_version': '1.0',
                                          'max_version': '%d.%d' % MAX_VERSION,
                                          'status': 'CURRENT'}]}
        return out

    @staticmethod
    def _only_keys(out, body, allowed, what='body'):
        extra = sorted(set(body) - set(allowed))
        if extra:
            out.schema('%s carries fields not accepted at this version: %s' % (what, extra))

    # -- resource providers --------------------------------------------------------------
    def _list_providers(self, v, query):
        out = Outcome('GET /resource_providers')
        out.ok = 200
        args = {}
        for k, val in query:
            if k in args:
                raise NotModelled('repeated query parameter')
            args[k] = val
        allowed = {'name', 'uuid'} | ({'in_tree'} if v >= (1, 14) else set())
        for k in args:
            if k in ('member_of', 'resources', 'required'):
                raise NotModelled('filter %s is the subject of C13' % k)
            if k not in allowed:
                out.reject('query parameter %s not accepted at this version' % k, 400)
        for k in ('uuid', 'in_tree'):
            if k in args and not is_uuid(args[k]):
                out.reject('%s is not a uuid' % k, 400)
        if not out.reasons:
            out.body = lambda: self.view_providers(v, args.get('name'), args.get('uuid'),
                                                   args.get('in_tree'))
        return out

    def _parent_rules(self, out, u, parent, v, creating):
        """Shared by POST and PUT: parent must exist, no loops, no re-parenting before 1.37."""
        cur = None if creating else self.providers[u]['parent']
        if parent is not None:
            if parent not in self.providers:
                out.reject('parent provider does not exist', 400, 409)
            if parent == u or (not creating and parent in self.descendants(u)):
                out.reject('parent would create a loop', 400, 409)
        if not creating and parent != cur and cur is not None and v < (1, 37):
            out.reject('re-parenting / un-parenting is not supported before 1.37', 400, 409)

    def _create_provider(self, v, body, body_ok):
        out = Outcome('POST /resource_providers')
        out.ok = 200 if v >= (1, 20) else 201
        if not body_ok or not isinstance(body, dict):
            out.schema('body is not a JSON object')
            return out
        allowed = ['name', 'uuid'] + (['parent_provider_uuid'] if v >= (1, 14) else [])
        self._only_keys(out, body, allowed)
        name = body.get('name')
        if not isinstance(name, str) or not name:
            out.reject('name missing or not a string', 400)
        if 'uuid' not in body:
            raise NotModelled('server-chosen uuid')
        u = body['uuid']
        if uuid_like(u) is None:
            out.reject('uuid malformed', 400)
        else:
            u = uuid_like(u)          # recorded (and reported) in the canonical spelling
        parent = body.get('parent_provider_uuid')
        if parent is not None and not is_uuid(parent):
            out.reject('parent_provider_uuid malformed', 400)
        if out.reasons:
            return out
        if u in self.providers:
            out.reject('a provider with this uuid exists', 409)
        if any(p['name'] == name for p in self.providers.values()):
            out.reject('a provider with this name exists', 409)
        if 'parent_provider_uuid' in body:
            self._parent_rules(out, u, parent, v, creating=True)

        def effect():
            self.providers[u] = {'name': name, 'parent': parent, 'gen': 0}
        out.effect = effect
        if v >= (1, 20):
            out.body = lambda: self.view_provider(u, v)
        return out

    def _show_provider(self, v, u):
        return self._get(v, 'GET /resource_providers/{u}', u, lambda: self.view_provider(u, v))

    def _update_provider(self, v, u, body, body_ok):
        out = Outcome('PUT /resource_providers/{u}')
        out.ok = 200
        if u not in self.providers:
            out.reject('no such resource provider', 404)
        if not body_ok or not isinstance(body, dict):
            out.schema('body is not a JSON object')
            return out
        allowed = ['name'] + (['parent_provider_uuid'] if v >= (1, 14) else [])
        self._only_keys(out, body, allowed)
        name = body.get('name')
        if not isinstance(name, str) or not name:
            out.reject('name missing or not a string', 400)
        parent = body.get('parent_provider_uuid')
        if parent is not None and not is_uuid(parent):
            out.reject('parent_provider_uuid malformed', 400)
        if out.reasons:
            return out
        if any(p['name'] == name for x, p in self.providers.items() if x != u):
            out.reject('another provider has this name', 409)
        if 'parent_provider_uuid' in body:
            self._parent_rules(out, u, parent, v, creating=False)

        def effect():
            self.providers[u]['name'] = name
            if 'parent_provider_uuid' in body:
                self.providers[u]['parent'] = parent
        out.effect = effect
        out.body = lambda: self.view_provider(u, v)
        return out

    def _delete_provider(self, v, u):
        out = Outcome('DELETE /resource_providers/{u}')
        out.ok = 204
        if u not in self.providers:
            out.reject('no such resource provider', 404)
            return out
        if any(r == u for (_, r, _) in self.allocations):
            out.reject('provider has allocations', 409)
        if any(p['parent'] == u for p in self.providers.values()):
            out.reject('provider has child providers', 409)

        def effect():
            del self.providers[u]
            for k in [k for k in self.inventories if k[0] == u]:
                del self.inventories[k]
            self.rp_traits = {x for x in self.rp_traits if x[0] != u}
            self.rp_aggs = {x for x in self.rp_aggs if x[0] != u}
        out.effect = effect
        return out

    # -- inventories ---------------------------------------------------------------------
    def _inventory_record(self, out, rc, inv, v):
        """Validate one inventory body; returns the stored record (defaults applied)."""
        if not isinstance(inv, dict):
            out.schema('inventory of %s is not an object' % rc)
            return None
        bad = False
        extra = set(inv) - set(INV_FIELDS)
        if extra:
            out.schema('unknown inventory fields %s' % sorted(extra))
            bad = True
        if not is_int(inv.get('total')):
            out.schema('total missing or not an integer')
            bad = True
        for f in ('reserved', 'min_unit', 'max_unit', 'step_size'):
            if f in inv and not is_int(inv[f]):
                out.schema('%s is not an integer' % f)
                bad = True
        if 'allocation_ratio' in inv and not is_num(inv['allocation_ratio']):
            out.schema('allocation_ratio is not a number')
            bad = True
        if bad:
            return None
        rec = dict(INV_DEFAULTS)
        rec.update(inv)
        if rec['total'] < 1 or rec['reserved'] < 0 or rec['min_unit'] < 1 or \
                rec['max_unit'] < 1 or rec['step_size'] < 1 or rec['allocation_ratio'] <= 0 or \
                any(rec[f] > 2147483647 for f in INV_FIELDS):
            raise NotModelled('inventory field bounds are not documented')
        if rec['reserved'] > rec['total']:
            out.reject('reserved greater than total', 400)
        elif rec['reserved'] == rec['total'] and v < (1, 26):
            out.reject('reserved equal to total is allowed from 1.26', 400)
        return rec

    def _put_inventories(self, v, u, body, body_ok):
        out = Outcome('PUT /resource_providers/{u}/inventories')
        out.ok = 200
        if u not in self.providers:
            out.reject('no such resource provider', 404)
        if not body_ok or not isinstance(body, dict):
            out.schema('body is not a JSON object')
            return out
        self._only_keys(out, body, ['resource_provider_generation', 'inventories'])
        gen = body.get('resource_provider_generation')
        if not is_int(gen):
            out.schema('resource_provider_generation missing or not an integer')
        invs = body.get('inventories')
        if not isinstance(invs, dict):
            out.schema('inventories missing or not an object')
            return out
        new = {}
        for rc, inv in invs.items():
            rec = self._inventory_record(out, rc, inv, v)
            if not self.class_exists(rc):
                out.reject('unknown resource class %s' % rc, 400)
            if rec is not None:
                new[rc] = rec
        if u not in self.providers or out.schema_bad:
            return out
        if gen != self.providers[u]['gen']:
            out.reject('resource provider generation conflict', 409)
        for (c, r, rc) in self.allocations:
            if r == u and rc not in new:
                out.reject('inventory of %s is in use and would be removed' % rc, 409)
                break
        old = {rc: inv for (r, rc), inv in self.inventories.items() if r == u}
        if old != new:
            out.bump_rps.add(u)

        def effect():
            for rc in old:
                del self.inventories[(u, rc)]
            for rc, rec in new.items():
                self.inventories[(u, rc)] = dict(rec)
        out.effect = effect
        out.body = lambda: self.view_inventories(u)
        return out

    def _delete_inventories(self, v, u):
        out = Outcome('DELETE /resource_providers/{u}/inventories')
        out.ok = 204
        if v < (1, 5):
            out.reject('method available from 1.5', 405)
            return out
        if u not in self.providers:
            out.reject('no such resource provider', 404)
            return out
        if any(r == u for (_, r, _) in self.allocations):
            out.reject('there are allocations against the provider', 409)
        old = [k for k in self.inventories if k[0] == u]
        if old:
            out.bump_rps.add(u)

        def effect():
            for k in old:
                del self.inventories[k]
        out.effect = effect
        return out

    def _show_inventory(self, v, u, rc):
        out = Outcome('GET /resource_providers/{u}/inventories/{rc}')
        out.ok = 200
        if u not in self.providers:
            out.reject('no such resource provider', 404)
        elif (u, rc) not in self.inventories:
            out.reject('provider has no inventory of this class', 404)
        else:
            out.body = lambda: self.view_inventory(u, rc)
        return out

    def _put_inventory(self, v, u, rc, body, body_ok):
        out = Outcome('PUT /resource_providers/{u}/inventories/{rc}')
        out.ok = 200
        if u not in self.providers:
            out.reject('no such resource provider', 404)
        if not body_ok or not isinstance(body, dict):
            out.schema('body is not a JSON object')
            return out
        gen = body.get('resource_provider_generation')
        if not is_int(gen):
            out.schema('resource_provider_generation missing or not an integer')
        inv = {k: x for k, x in body.items() if k != 'resource_provider_generation'}
        rec = self._inventory_record(out, rc, inv, v)
        if u not in self.providers or out.schema_bad:
            return out
        if (u, rc) not in self.inventories:
            out.reject('provider has no inventory of this class', 400, 404)
        if gen != self.providers[u]['gen']:
            out.reject('resource provider generation conflict', 409)
        if rec != self.inventories.get((u, rc)):
            out.bump_rps.add(u)

        def effect():
            self.inventories[(u, rc)] = dict(rec)
        out.effect = effect
        out.body = lambda: self.view_inventory(u, rc)
        return out

    def _delete_inventory(self, v, u, rc):
        out = Outcome('DELETE /resource_providers/{u}/inventories/{rc}')
        out.ok = 204
        if u not in self.providers:
            out.reject('no such resource provider', 404)
            return out
        if (u, rc) not in self.inventories:
            out.reject('provider has no inventory of this class', 404)
            return out
        if any(r == u and k == rc for (_, r, k) in self.allocations):
            out.reject('there are allocations for this provider and class', 409)
        out.bump_rps.add(u)

        def effect():
            del self.inventories[(u, rc)]
        out.effect = effect
        return out

    # -- aggregates ----------------------------------------------------------------------
    def _put_aggregates(self, v, u, body, body_ok):
        out = Outcome('PUT /resource_providers/{u}/aggregates')
        out.ok = 200
        if v < (1, 1):
            out.reject('route introduced in 1.1', 404)
            return out
        if u not in self.providers:
            out.reject('no such resource provider', 404)
        if not body_ok:
            out.schema('body is not JSON')
            return out
        gen = None
        if v >= (1, 19):
            if not isinstance(body, dict):
                out.reject('from 1.19 the body is an object', 400)
                return out
            self._only_keys(out, body, ['aggregates', 'resource_provider_generation'])
            gen = body.get('resource_provider_generation')
            if not is_int(gen):
                out.schema('resource_provider_generation missing or not an integer')
            aggs = body.get('aggregates')
        else:
            aggs = body
        if not isinstance(aggs, list):
            out.reject('aggregates missing or not a list', 400)
            return out
        if not all(is_uuid(a) for a in aggs):
            out.reject('aggregate is not a uuid', 400)
        if len(set(aggs)) != len(aggs):
            raise NotModelled('duplicate aggregates')
        if out.reasons:
            return out
        if v >= (1, 19) and gen != self.providers[u]['gen']:
            out.reject('resource provider generation conflict', 409)
        old = {a for (r, a) in self.rp_aggs if r == u}
        if old != set(aggs) and v >= (1, 19):
            out.bump_rps.add(u)

        def effect():
            self.rp_aggs = {x for x in self.rp_aggs if x[0] != u} | {(u, a) for a in aggs}
        out.effect = effect
        out.body = lambda: self.view_aggregates(u, v)
        return out

    # -- traits --------------------------------------------------------------------------
    def _list_traits(self, v, query):
        out = Outcome('GET /traits')
        out.ok = 200
        if v < (1, 6):
            out.reject('route introduced in 1.6', 404)
            return out
        args = dict(query)
        if len(args) != len(query):
            raise NotModelled('repeated query parameter')
        for k in args:
            if k not in ('name', 'associated'):
                out.reject('unknown query parameter %s' % k, 400)
        name = args.get('name')
        if name is not None and not (name.startswith('in:') or name.startswith('startswith:')):
            out.reject('name filter needs the in: or startswith: operator', 400)
        assoc = None
        if 'associated' in args:
            if args['associated'].lower() not in ('true', 'false'):
                out.reject('associated must be true or false', 400)
            assoc = args['associated'].lower() == 'true'
        if not out.reasons:
            out.body = lambda: self.view_traits(name, assoc)
        return out

    def _show_trait(self, v, name):
        out = Outcome('GET /traits/{name}')
        out.ok = 204
        if v < (1, 6):
            out.reject('route introduced in 1.6', 404)
        elif not self.trait_exists(name):
            out.reject('no such trait', 404)
        return out

    def _put_trait(self, v, name):
        out = Outcome('PUT /traits/{name}')
        if v < (1, 6):
            out.ok = 201
            out.reject('route introduced in 1.6', 404)
            return out
        if name in STD_TRAITS:
            out.ok = 204
            out.maybe('standard trait: exists (204) but is not CUSTOM_ prefixed (400)', 400)
            return out
        if self.trait_exists(name):
            out.ok = 204
            return out
        out.ok = 201
        if not CUSTOM_RE.match(name) or len(name) > 255:
            out.reject('name is not CUSTOM_ followed by A-Z, 0-9, _', 400)
            return out

        def effect():
            self.custom_traits.add(name)
        out.effect = effect
        return out

    def _delete_trait(self, v, name):
        out = Outcome('DELETE /traits/{name}')
        out.ok = 204
        if v < (1, 6):
            out.reject('route introduced in 1.6', 404)
            return out
        if name in STD_TRAITS:
            out.reject('standard traits cannot be deleted', 400)
            return out
        if name not in self.custom_traits:
            out.reject('no such trait', 404)
            return out
        if any(t == name for (_, t) in self.rp_traits):
            out.reject('trait is associated with a provider', 409)

        def effect():
            self.custom_traits.discard(name)
        out.effect = effect
        return out

    def _put_rp_traits(self, v, u, body, body_ok):
        out = Outcome('PUT /resource_providers/{u}/traits')
        out.ok = 200
        if v < (1, 6):
            out.reject('route introduced in 1.6', 404)
            return out
        if u not in self.providers:
            out.reject('no such resource provider', 404)
        if not body_ok or not isinstance(body, dict):
            out.schema('body is not a JSON object')
            return out
        self._only_keys(out, body, ['traits', 'resource_provider_generation'])
        gen = body.get('resource_provider_generation')
        if not is_int(gen):
            out.schema('resource_provider_generation missing or not an integer')
        traits = body.get('traits')
        if not isinstance(traits, list) or not all(isinstance(t, str) for t in traits):
            out.schema('traits missing or not a list of strings')
        if out.schema_bad or u not in self.providers:
            return out
        if len(set(traits)) != len(traits):
            raise NotModelled('duplicate traits')
        unknown = [t for t in traits if not self.trait_exists(t)]
        if unknown:
            out.reject('traits %s are not valid' % unknown, 400)
        if gen != self.providers[u]['gen']:
            out.reject('resource provider generation conflict', 409)
        old = {t for (r, t) in self.rp_traits if r == u}
        if old != set(traits):
            out.bump_rps.add(u)

        def effect():
            self.rp_traits = {x for x in self.rp_traits if x[0] != u} | {(u, t) for t in traits}
        out.effect = effect
        out.body = lambda: self.view_rp_traits(u)
        return out

    def _delete_rp_traits(self, v, u):
        out = Outcome('DELETE /resource_providers/{u}/traits')
        out.ok = 204
        if v < (1, 6):
            out.reject('route introduced in 1.6', 404)
            return out
        if u not in self.providers:
            out.reject('no such resource provider', 404)
            return out
        if any(r == u for (r, _) in self.rp_traits):
            out.bump_rps.add(u)

        def effect():
            self.rp_traits = {x for x in self.rp_traits if x[0] != u}
        out.effect = effect
        return out

    # -- resource classes ----------------------------------------------------------------
    def _create_class(self, v, body, body_ok):
        out = Outcome('POST /resource_classes')
        out.ok = 201
        if v < (1, 2):
            out.reject('route introduced in 1.2', 404)
            return out
        if not body_ok or not isinstance(body, dict):
            out.schema('body is not a JSON object')
            return out
        self._only_keys(out, body, ['name'])
        name = body.get('name')
        if not isinstance(name, str):
            out.reject('name missing or not a string', 400)
            return out
        if self.class_exists(name):
            out.reject('a resource class with this name exists', 409)
        if not CUSTOM_RE.match(name) or len(name) > 255:
            out.reject('name is not CUSTOM_ followed by A-Z, 0-9, _', 400)

        def effect():
            self.custom_classes.add(name)
        out.effect = effect
        return out

    def _show_class(self, v, name):
        out = Outcome('GET /resource_classes/{name}')
        out.ok = 200
        if v < (1, 2):
            out.reject('route introduced in 1.2', 404)
        elif not self.class_exists(name):
            out.reject('no such resource class', 404)
        else:
            out.body = lambda: {'name': name}
        return out

    def _put_class(self, v, name, body, body_ok, has_body):
        out = Outcome('PUT /resource_classes/{name}')
        if v < (1, 2):
            out.ok = 200
            out.reject('route introduced in 1.2', 404)
            return out
        if v >= (1, 7):
            if has_body:
                raise NotModelled('PUT /resource_classes/{name} with a body from 1.7')
            if name in STD_CLASS_SET:
                out.ok = 204
                out.maybe('standard class: exists (204) but is not CUSTOM_ prefixed (400)', 400)
                return out
            if name in self.custom_classes:
                out.ok = 204
                return out
            out.ok = 201
            if not CUSTOM_RE.match(name) or len(name) > 255:
                out.reject('name is not CUSTOM_ followed by A-Z, 0-9, _', 400)
                return out

            def effect():
                self.custom_classes.add(name)
            out.effect = effect
            return out
        # 1.2 - 1.6: rename
        out.ok = 200
        if not self.class_exists(name):
            out.reject('no such resource class', 404)
        if not body_ok or not isinstance(body, dict):
            out.schema('body is not a JSON object')
            return out
        self._only_keys(out, body, ['name'])
        new = body.get('name')
        if not isinstance(new, str):
            out.reject('name missing or not a string', 400)
            return out
        if not CUSTOM_RE.match(new) or len(new) > 255:
            out.reject('new name is not CUSTOM_ followed by A-Z, 0-9, _', 400)
        if name in STD_CLASS_SET:
            out.reject('standard resource classes cannot be renamed', 400)
        if self.class_exists(new) and new != name:
            out.reject('a resource class with the new name exists', 409)
        if new == name:
            raise NotModelled('rename of a class to itself')

        def effect():
            self.custom_classes.discard(name)
            self.custom_classes.add(new)
            self.inventories = {(r, new if rc == name else rc): i
                                for (r, rc), i in self.inventories.items()}
            self.allocations = {(c, r, new if rc == name else rc): a
                                for (c, r, rc), a in self.allocations.items()}
        out.effect = effect
        out.body = lambda: {'name': new}
        return out

    def _delete_class(self, v, name):
        out = Outcome('DELETE /resource_classes/{name}')
        out.ok = 204
        if v < (1, 2):
            out.reject('route introduced in 1.2', 404)
            return out
        if name in STD_CLASS_SET:
            out.reject('standard resource classes cannot be deleted', 400)
            return out
        if name not in self.custom_classes:
            out.reject('no such resource class', 404)
            return out
        if any(rc == name for (_, rc) in self.inventories):
            out.reject('inventories of this class exist', 409)

        def effect():
            self.custom_classes.discard(name)
        out.effect = effect
        return out

    # -- allocations ---------------------------------------------------------------------
    def _parse_alloc_entry(self, out, entry, v, list_format_ok, where):
        """One consumer's write -> dict(allocs {(rp, rc): amount}, project, user, cgen, ctype)
        or None when the entry violates the body format of version v."""
        if not isinstance(entry, dict):
            out.schema('%s is not an object' % where)
            return None
        required = ['allocations']
        if v >= (1, 8):
            required += ['project_id', 'user_id']
        if v >= (1, 28):
            required += ['consumer_generation']
        if v >= (1, 38):
            required += ['consumer_type']
        allowed = list(required) + (['mappings'] if v >= (1, 34) else [])
        bad = False
        missing = [k for k in required if k not in entry]
        if missing:
            out.schema('%s lacks %s required at this version' % (where, missing))
            bad = True
        extra = sorted(set(entry) - set(allowed))
        if extra:
            out.schema('%s carries %s not accepted at this version' % (where, extra))
            bad = True
        for k in ('project_id', 'user_id'):
            if k in entry and (not isinstance(entry[k], str) or not entry[k]):
                out.schema('%s is not a string' % k)
                bad = True
        cgen = entry.get('consumer_generation')
        if cgen is not None and not is_int(cgen):
            out.schema('consumer_generation is neither null nor an integer')
            bad = True
        ctype = entry.get('consumer_type')
        if 'consumer_type' in entry and (not isinstance(ctype, str) or
                                         not CTYPE_RE.match(ctype)):
            out.schema('consumer_type is not a string of A-Z, 0-9, _')
            bad = True
        a = entry.get('allocations')
        allocs = {}
        if 'allocations' in entry:
            want_list = list_format_ok and v < (1, 12)
            if want_list:
                if not isinstance(a, list):
                    out.schema('allocations must be an array before 1.12')
                    bad = True
                else:
                    for x in a:
                        try:
                            rp = x['resource_provider']['uuid']
                            res = x['resources']
                            assert isinstance(res, dict) and res
                        except Exception:
                            raise NotModelled('malformed list-format allocation')
                        for rc, amt in res.items():
                            allocs[(rp, rc)] = allocs.get((rp, rc), 0) + amt
                    if not a:
                        out.schema('allocations must not be empty')
                        bad = True
            else:
                if not isinstance(a, dict):
                    out.schema('allocations must be an object from 1.12')
                    bad = True
                else:
                    for rp, x in a.items():
                        if not isinstance(x, dict) or not isinstance(x.get('resources'), dict) \
                                or not x['resources'] or set(x) - {'resources', 'generation'}:
                            raise NotModelled('malformed dict-format allocation')
                        for rc, amt in x['resources'].items():
                            allocs[(rp, rc)] = amt
                    if not a and v < (1, 28) and list_format_ok:
                        # PUT accepts an empty allocations object from 1.28 (history 1.28)
                        out.schema('empty allocations are accepted from 1.28')
                        bad = True
            for (rp, rc), amt in allocs.items():
                if not is_int(amt) or amt < 1:
                    raise NotModelled('allocation amounts below 1 / non-integers')
                if not is_uuid(rp):
                    out.schema('resource provider uuid malformed')
                    bad = True
        if bad:
            return None
        return {'allocs': allocs, 'project': entry.get('project_id'),
                'user': entry.get('user_id'), 'cgen': cgen, 'ctype': ctype,
                'has_cgen': v >= (1, 28), 'has_ctype': v >= (1, 38),
                'has_project': v >= (1, 8)}

    def _alloc_write(self, out, entries, unknown_status, new_inventories=None):
        """Semantic checks and effect of replacing the allocations of the consumers in
        `entries` (all or nothing). new_inventories: {(rp, rc): record} for /reshaper."""
        invs = self.inventories if new_inventories is None else new_inventories
        for c, e in entries.items():
            exists = c in self.consumers
            if e['has_cgen']:
                if e['cgen'] is None and exists:
                    out.reject('consumer_generation null but consumer %s exists' % c, 409)
                elif e['cgen'] is not None and not exists:
                    out.reject('consumer_generation given but consumer %s does not exist' % c,
                               409)
                elif exists and e['cgen'] != self.consumers[c]['gen']:
                    out.reject('consumer generation conflict for %s' % c, 409)
        after = {k: a for k, a in self.allocations.items() if k[0] not in entries}
        for c, e in entries.items():
            for (rp, rc), amt in e['allocs'].items():
                after[(c, rp, rc)] = amt
        placed = set()
        for c, e in entries.items():
            for (rp, rc), amt in e['allocs'].items():
                if rp not in self.providers:
                    out.reject('allocation names unknown provider %s' % rp, *unknown_status)
                    continue
                if not self.class_exists(rc):
                    out.reject('allocation names unknown resource class %s' % rc,
                               *unknown_status)
                    continue
                inv = invs.get((rp, rc))
                if inv is None:
                    out.reject('no inventory of %s on %s' % (rc, rp), 409)
                    continue
                if amt < inv['min_unit'] or amt > inv['max_unit'] or amt % inv['step_size']:
                    out.reject('amount %s of %s violates min_unit/max_unit/step_size' % (amt, rc),
                               409)
                placed.add((rp, rc))
        for (rp, rc) in sorted(placed):
            inv = invs[(rp, rc)]
            total_after = self.used(rp, rc, after)
            if total_after > capacity(inv):
                mine_before = sum(a for (c, r, k), a in self.allocations.items()
                                  if c in entries and r == rp and k == rc)
                mine_after = sum(a for (c, r, k), a in after.items()
                                 if c in entries and r == rp and k == rc)
                if mine_after < mine_before:
                    out.maybe('usage of over-committed %s/%s shrinks but stays above capacity'
                              % (rp, rc), 409)
                else:
                    out.reject('capacity of %s on %s exceeded' % (rc, rp), 409)
        for (rp, rc) in placed:
            out.bump_rps.add(rp)
        for c, e in entries.items():
            if c in self.consumers and e['allocs']:
                out.bump_consumers.add(c)

        def effect():
            self.allocations = after
            for c, e in entries.items():
                if not e['allocs']:
                    self.consumers.pop(c, None)
                    continue
                x = self.consumers.get(c)
                if x is None:
                    x = self.consumers[c] = {'project': self.placeholder[0],
                                             'user': self.placeholder[1], 'type': None,
                                             'gen': 0}
                if e['has_project']:
                    x['project'], x['user'] = e['project'], e['user']
                else:
                    # history 1.28: below 1.8 project and user "are populated from" the
                    # incomplete_consumer_* options, i.e. such a write names the placeholders
                    x['project'], x['user'] = self.placeholder
                if e['has_ctype']:
                    x['type'] = e['ctype']
        return effect

    def _put_allocations(self, v, c, body, body_ok):
        out = Outcome('PUT /allocations/{c}')
        out.ok = 204
        if not is_uuid(c):
            out.reject('consumer uuid malformed', 400, 404)
        if not body_ok:
            out.schema('body is not JSON')
            return out
        e = self._parse_alloc_entry(out, body, v, True, 'body')
        if e is None or out.reasons:
            return out
        out.effect = self._alloc_write(out, {c: e}, (400, 404))
        return out

    def _post_allocations(self, v, body, body_ok):
        out = Outcome('POST /allocations')
        out.ok = 204
        if v < (1, 13):
            out.reject('POST /allocations is available from 1.13', 404, 405)
            return out
        if not body_ok or not isinstance(body, dict):
            out.schema('body is not a JSON object')
            return out
        if not body:
            raise NotModelled('POST /allocations with no consumer')
        entries = {}
        for c, entry in body.items():
            if is_uuid(c.lower()) and len(c) == 36:
                # an upper-case spelling names the same consumer (PUT /allocations/{c} records
                # every consumer under the canonical spelling)
                c = c.lower()
            if not is_uuid(c):
                out.schema('consumer uuid malformed')
            e = self._parse_alloc_entry(out, entry, v, False, 'entry of %s' % c)
            if e is not None:
                entries[c] = e
        if out.schema_bad:
            return out
        out.effect = self._alloc_write(out, entries, (400,))
        return out

    def _delete_allocations(self, v, c):
        out = Outcome('DELETE /allocations/{c}')
        out.ok = 204
        if not any(k[0] == c for k in self.allocations):
            out.reject('consumer has no allocations', 404)
            return out

        def effect():
            self.allocations = {k: a for k, a in self.allocations.items() if k[0] != c}
            self.consumers.pop(c, None)
        out.effect = effect
        return out

    # -- reshaper ------------------------------------------------------------------------
    def _reshaper(self, v, body, body_ok):
        out = Outcome('POST /reshaper')
        out.ok = 204
        if v < (1, 30):
            out.reject('route introduced in 1.30', 404)
            return out
        if not body_ok or not isinstance(body, dict):
            out.schema('body is not a JSON object')
            return out
        self._only_keys(out, body, ['inventories', 'allocations'])
        invs, allocs = body.get('inventories'), body.get('allocations')
        if not isinstance(invs, dict):
            out.schema('inventories missing or not an object')
        if not isinstance(allocs, dict):
            out.schema('allocations missing or not an object')
        if out.reasons:
            return out
        new_inv = dict(self.inventories)
        changed = set()
        for u, x in invs.items():
            if not is_uuid(u):
                out.schema('provider uuid malformed')
                continue
            if not isinstance(x, dict):
                out.schema('inventories of %s is not an object' % u)
                continue
            extra = set(x) - {'resource_provider_generation', 'inventories'}
            if extra:
                out.schema('unknown fields %s' % sorted(extra))
            gen = x.get('resource_provider_generation')
            if not is_int(gen):
                out.schema('resource_provider_generation missing or not an integer')
            if not isinstance(x.get('inventories'), dict):
                out.schema('inventories missing or not an object')
                continue
            recs = {}
            for rc, inv in x['inventories'].items():
                rec = self._inventory_record(out, rc, inv, v)
                if not self.class_exists(rc):
                    out.reject('unknown resource class %s' % rc, 400)
                if rec is not None:
                    recs[rc] = rec
            if u not in self.providers:
                out.reject('unknown resource provider %s' % u, 400)
                continue
            if is_int(gen) and gen != self.providers[u]['gen']:
                out.reject('resource provider generation conflict on %s' % u, 409)
            old = {rc: i for (r, rc), i in self.inventories.items() if r == u}
            if old != recs:
                changed.add(u)
            for rc in old:
                del new_inv[(u, rc)]
            for rc, rec in recs.items():
                new_inv[(u, rc)] = rec
        entries = {}
        for c, entry in allocs.items():
            if not is_uuid(c):
                out.schema('consumer uuid malformed')
            e = self._parse_alloc_entry(out, entry, v, False, 'entry of %s' % c)
            if e is not None:
                entries[c] = e
        if out.schema_bad:
            return out
        eff = self._alloc_write(out, entries, (400,), new_inventories=new_inv)
        after = {k: a for k, a in self.allocations.items() if k[0] not in entries}
        for c, e in entries.items():
            for (rp, rc), amt in e['allocs'].items():
                after[(c, rp, rc)] = amt
        for (c, rp, rc) in sorted(after):
            if rp in invs and (rp, rc) not in new_inv and (rp, rc) in self.inventories:
                out.reject('inventory of %s on %s removed while allocations remain' % (rc, rp),
                           409)
                break
        out.bump_rps |= changed

        def effect():
            self.inventories = {k: dict(i) for k, i in new_inv.items()}
            eff()
        out.effect = effect
        return out

    # -- usages --------------------------------------------------------------------------
    def _get_usages(self, v, query):
        out = Outcome('GET /usages')
        out.ok = 200
        if v < (1, 9):
            out.reject('route introduced in 1.9', 404)
            return out
        args = dict(query)
        if len(args) != len(query):
            raise NotModelled('repeated query parameter')
        allowed = {'project_id', 'user_id'} | ({'consumer_type'} if v >= (1, 38) else set())
        for k in args:
            if k not in allowed:
                out.reject('query parameter %s not accepted at this version' % k, 400)
        if 'project_id' not in args:
            out.reject('project_id is required', 400)
        for k in ('project_id', 'user_id'):
            if k in args and not args[k]:
                raise NotModelled('empty %s' % k)
        ctype = args.get('consumer_type')
        if ctype is not None and ctype not in ('all', 'unknown') and \
                not any(x['type'] == ctype for x in self.consumers.values()):
            raise NotModelled('consumer_type that no consumer has')
        if not out.reasons:
            out.body = lambda: self.view_usages(v, args['project_id'], args.get('user_id'),
                                                ctype)
        return out

    def _allocation_candidates(self, v, query):
        out = Outcome('GET /allocation_candidates')
        out.ok = 200
        out.check_body = False        # the body is the subject of C02/C03
        if v < (1, 10):
            out.reject('route introduced in 1.10', 404)
        return out
