"""Query grammar for GET /allocation_candidates: simple base queries + every set of <= k filter
deviations ("bound deviations, not depth": the first counterexample has the fewest filters).

A query is the dict understood by vp.oracles_ac (ac_oracle / to_qs).
"""
import copy
import itertools

from vp import scope
from vp.names import A, P, UNKNOWN_UUID

T_A, T_B, T_C = scope.T_A, scope.T_B, scope.T_C
A1, A2, A3 = scope.AGGS


def bases():
    """[(name, query)] -- the undecorated requests."""
    def g(**res):
        return {'resources': dict(res)}
    return [
        ('u1', {'groups': {'': g(VCPU=1)}}),
        ('u2', {'groups': {'': g(VCPU=1, DISK_GB=3)}}),
        ('u3', {'groups': {'': g(VCPU=2, DISK_GB=3, SRIOV_NET_VF=2)}}),
        ('s1', {'groups': {'1': g(VCPU=1)}}),
        ('s2', {'groups': {'1': g(VCPU=1), '2': g(DISK_GB=3)}, 'group_policy': 'none'}),
        ('s2same', {'groups': {'1': g(VCPU=1), '2': g(VCPU=2)}, 'group_policy': 'none'}),
        ('m1', {'groups': {'': g(VCPU=1), '1': g(SRIOV_NET_VF=2)}}),
        ('m1same', {'groups': {'': g(VCPU=1), '1': g(VCPU=1)}}),
        ('m2', {'groups': {'': g(DISK_GB=3), '1': g(VCPU=1), '2': g(CUSTOM_X=1)},
                'group_policy': 'none'}),
        ('s3', {'groups': {'1': g(VCPU=1), '2': g(VCPU=1), '3': g(DISK_GB=3)},
                'group_policy': 'none'}),
        # two groups whose amounts each respect max_unit but whose sum on one provider does not
        # (DISK_GB: max_unit 5, capacity 10) -- the limits on *summed* amounts
        ('s2disk', {'groups': {'1': g(DISK_GB=3), '2': g(DISK_GB=3)}, 'group_policy': 'none'}),
        ('m1disk', {'groups': {'': g(DISK_GB=3), '1': g(DISK_GB=3)}, 'group_policy': 'isolate'}),
        ('m1same2', {'groups': {'': g(VCPU=2), '1': g(VCPU=2)}}),
        # a class repeated in groups that are NOT neighbours in the request
        ('s3x', {'groups': {'1': g(VCPU=1), '2': g(DISK_GB=3), '3': g(VCPU=2)},
                 'group_policy': 'none'}),
        ('m2x', {'groups': {'': g(VCPU=1), '1': g(DISK_GB=3), '2': g(VCPU=2)},
                 'group_policy': 'none'}),
        # same_subtree given twice: every occurrence constrains (both orders, so that the one
        # that bites is once the first and once the last)
        ('ss2a', {'groups': {'1': g(VCPU=1), '2': g(SRIOV_NET_VF=2), '3': g(DISK_GB=3)},
                  'group_policy': 'none', 'same_subtree': [['1', '2'], ['2', '3']]}),
        # a string suffix with every character class the 1.33 syntax allows
        ('mdash', {'groups': {'': g(VCPU=1), '_net-0': g(SRIOV_NET_VF=2)}}),
        ('ss2b', {'groups': {'1': g(VCPU=1), '2': g(SRIOV_NET_VF=2), '3': g(DISK_GB=3)},
                  'group_policy': 'none', 'same_subtree': [['2', '3'], ['1', '2']]}),
    ]


def deviations(q, desc):
    """All single deviations applicable to query q in state description desc:
    [(label, function(query) -> query or None)]"""
    out = []
    provs = [p['i'] for p in desc['providers']]
    sh = scope.shape(desc)
    in_tree_targets = []
    if sh['roots']:
        in_tree_targets.append(('root', P(sh['roots'][0])))
        if len(sh['roots']) > 1:
            in_tree_targets.append(('root2', P(sh['roots'][-1])))
    if sh['children']:
        in_tree_targets.append(('child', P(sh['children'][0])))
    in_tree_targets.append(('unknown', UNKNOWN_UUID))
    suffixes = list(q['groups'])
    granular = [s for s in suffixes if s != '']

    def setg(s, key, val, append=False):
        def f(qq):
            grp = qq['groups'][s]
            if append:
                cur = grp.setdefault(key, [])
                if val in cur:
                    return None
                cur.append(val)
            else:
                if key in grp:
                    return None
                grp[key] = val
            # a trait may not be both required and forbidden in one group
            req = {t for a in grp.get('required', []) for t in a}
            if req & set(grp.get('forbidden', [])):
                return None
            return qq
        return f
    for s in suffixes:
        tag = 'g%s' % (s or '_')
        for t in (T_A, T_B, T_C):
            out.append(('%s:required:%s' % (tag, t), setg(s, 'required', [t], append=True)))
            out.append(('%s:forbidden:%s' % (tag, t), setg(s, 'forbidden', t, append=True)))
        out.append(('%s:required:in:%s,%s' % (tag, T_A, T_B),
                    setg(s, 'required', [T_A, T_B], append=True)))
        out.append(('%s:required:in:%s,%s' % (tag, T_B, T_C),
                    setg(s, 'required', [T_B, T_C], append=True)))
        for a in (A1, A2):
            out.append(('%s:member_of:%s' % (tag, a[-1]), setg(s, 'member_of', [a], append=True)))
            out.append(('%s:member_of:!%s' % (tag, a[-1]),
                        setg(s, 'forbidden_aggs', a, append=True)))
        out.append(('%s:member_of:in:1,2' % tag, setg(s, 'member_of', [A1, A2], append=True)))
        out.append(('%s:member_of:in:2,3' % tag, setg(s, 'member_of', [A2, A3], append=True)))
        for nm, u in in_tree_targets:
            out.append(('%s:in_tree:%s' % (tag, nm), setg(s, 'in_tree', u)))
        # amounts
        for rc, amt in sorted(q['groups'][s].get('resources', {}).items()):
            for new in _other_amounts(rc, amt):
                def fa(qq, s=s, rc=rc, new=new):
                    qq['groups'][s]['resources'][rc] = new
                    return qq
                out.append(('%s:amount:%s=%d' % (tag, rc, new), fa))
    if len(granular) >= 2 or (granular and '' in suffixes):
        def iso(qq):
            if qq.get('group_policy') == 'isolate':
                return None
            qq['group_policy'] = 'isolate'
            return qq
        out.append(('group_policy:isolate', iso))
    if len(granular) >= 2:
        for n in range(2, len(granular) + 1):
            for ss in itertools.combinations(granular, n):
                def fs(qq, ss=ss):
                    cur = qq.setdefault('same_subtree', [])
                    if list(ss) in cur:
                        return None
                    cur.append(list(ss))
                    return qq
                out.append(('same_subtree:%s' % ','.join(ss), fs))
    if granular:
        # a resourceless group tied to the first granular group by same_subtree (>= 1.36)
        for t in (T_A, T_B):
            def fr(qq, t=t):
                if 'R' in qq['groups']:
                    return None
                qq['groups']['R'] = {'required': [[t]]}
                qq.setdefault('same_subtree', []).append([granular[0], 'R'])
                n = len([s for s in qq['groups'] if s != ''])
                if n >= 2 and not qq.get('group_policy'):
                    qq['group_policy'] = 'none'
                return qq
            out.append(('resourceless:R:required:%s+same_subtree' % t, fr))
    for t in (T_A, T_B):
        def rr(qq, t=t):
            cur = qq.get('root_required') or ([], [])
            if t in cur[0] or t in cur[1]:
                return None
            qq['root_required'] = (list(cur[0]) + [t], list(cur[1]))
            return qq

        def rf(qq, t=t):
            cur = qq.get('root_required') or ([], [])
            if t in cur[0] or t in cur[1]:
                return None
            qq['root_required'] = (list(cur[0]), list(cur[1]) + [t])
            return qq
        out.append(('root_required:%s' % t, rr))
        out.append(('root_required:!%s' % t, rf))
    return out


def _other_amounts(rc, amt):
    menu = {'VCPU': (1, 2, 4, 8), 'DISK_GB': (3, 6, 9), 'SRIOV_NET_VF': (1, 2, 4),
            'CUSTOM_X': (1, 4, 5)}[rc]
    return [a for a in menu if a != amt]


def min_version(q):
    """Lowest microversion at which every feature of q exists."""
    v = (1, 10)
    groups = q['groups']
    if any(s != '' for s in groups):
        v = max(v, (1, 25))
    if any(len(s) > 0 and not s.isdigit() for s in groups):
        v = max(v, (1, 33))
    for s, g in groups.items():
        if g.get('required'):
            v = max(v, (1, 17))
            if any(len(a) > 1 for a in g['required']) or len(
                    [a for a in g['required'] if len(a) > 1]) > 0:
                v = max(v, (1, 39))
        if g.get('forbidden'):
            v = max(v, (1, 22))
        if g.get('member_of'):
            v = max(v, (1, 21))
            if len(g['member_of']) > 1:
                v = max(v, (1, 24))
        if g.get('forbidden_aggs'):
            v = max(v, (1, 32))
        if g.get('in_tree'):
            v = max(v, (1, 31))
        if not g.get('resources'):
            v = max(v, (1, 36))
    if q.get('root_required'):
        v = max(v, (1, 35))
    if q.get('same_subtree'):
        v = max(v, (1, 36))
    return v


VERSIONS = ['1.39', '1.36', '1.35', '1.34', '1.33', '1.32', '1.31', '1.29', '1.28', '1.25',
            '1.24', '1.22', '1.21', '1.17', '1.12', '1.10']


def at_versions(q, versions):
    """The query at each of `versions` where all its features exist."""
    mn = min_version(q)
    out = []
    for mv in versions:
        v = tuple(int(x) for x in mv.split('.'))
        if v >= mn:
            qq = copy.deepcopy(q)
            qq['mv'] = mv
            out.append(qq)
    return out


def queries(desc, k, versions=('1.39',), extra_versions_for_base=(), versions_k1=()):
    """[(label, query)] : every base x every set of <= k deviations, at the given versions
    (base queries also at extra_versions_for_base, single deviations also at versions_k1)."""
    out = []
    seen = set()
    for bname, b in bases():
        devs = deviations(b, desc)
        for n in range(0, k + 1):
            for combo in itertools.combinations(range(len(devs)), n):
                q = copy.deepcopy(b)
                ok = True
                # deviations are generated against the base; those that introduce groups are
                # applied last so that group-specific ones refer to existing groups
                for i in combo:
                    q = devs[i][1](q)
                    if q is None:
                        ok = False
                        break
                if not ok:
                    continue
                label = bname + ''.join('+' + devs[i][0] for i in combo)
                vs = list(versions)
                if n == 0:
                    vs += list(extra_versions_for_base)
                if n == 1:
                    vs += [v for v in versions_k1 if v not in vs]
                for qq in at_versions(q, vs):
                    key = repr(sorted(qq.items(), key=repr))
                    if key in seen:
                        continue
                    seen.add(key)
                    out.append((label + '@' + qq['mv'], qq))
    return out
