"""E-enum: complete enumeration of a finite product / grammar of cases, spread over workers.

Usage from a property module `vp.props.cNN`:

    class Worker(EnumWorker):
        def setup(self):            # once per worker, after boot: build named states
            self.states = {'empty': self.h.base_image}
            self.states['pop'] = self.build([R('POST', ...), ...])
        def case(self, c):          # one case -> picklable result
            self.restore(self.states[c['state']])
            resp, run = self.call(c['req'])
            ...
            return {...}

    def make_worker(base_image, *args):
        return Worker(base_image, *args)

    for res in run_cases(ctx, 'vp.props.cNN', cases, args=()):   # results in case order
        ...
"""
from vp import http
from vp.boot import Harness, make_base_image
from vp.check import HarnessError
from vp.probe import Probe, Run
from vp.snapshot import Dump
from vp.workers import Pool


class EnumWorker(object):
    conf = None          # {(group, name): value}
    authorizer = False

    def __init__(self, base_image, *args):
        self.args = args
        self.h = Harness(image=base_image, conf_overrides=self.conf)
        self.base = base_image
        self.probe = Probe(self.h, authorizer=self.authorizer)
        self.setup()

    def setup(self):
        pass

    # -- helpers -------------------------------------------------------------------------
    def call(self, req):
        """Execute one request through the real WSGI pipeline -> (Resp, Run)."""
        run = Run()
        self.probe.cur = run
        try:
            resp = http.call(self.h.app, req)
        finally:
            self.probe.cur = None
        return resp, run

    def restore(self, image):
        self.h.write_image(image)

    def image(self):
        return self.h.read_image()

    def dump(self):
        return Dump(self.h.dbfile)

    def build(self, reqs, image=None):
        """Run setup requests (must all succeed) from `image` (default: base) -> new image."""
        self.restore(image if image is not None else self.base)
        for req in reqs:
            resp, _ = self.call(req)
            if resp.status >= 400:
                raise HarnessError('setup request failed: %s %s -> %s %s' % (
                    req['method'], req['path'], resp.status, resp.raw[:300]))
        return self.image()

    def work(self, chunk):
        return [self.case(c) for c in chunk]

    def case(self, c):
        raise NotImplementedError


def run_cases(ctx, modname, cases, args=(), chunk=40, factory='make_worker', conf=None,
              workers=None):
    """Yield one result per case, in case order."""
    base = make_base_image(conf_overrides=conf)
    pool = Pool(workers or ctx.workers, modname, factory, (base,) + tuple(args))
    try:
        chunks = [cases[i:i + chunk] for i in range(0, len(cases), chunk)]
        for res in pool.map(chunks):
            for r in res:
                yield r
    finally:
        pool.close()
