"""Check runner.

  /venv/bin/python -m vp.check C09 --tier quick
  /venv/bin/python -m vp.check C09 --replay replays/C09-xxxx.json

exit 0: property held on everything explored (KNOWN-FINDING lines may be printed)
exit 1: at least one `VIOLATION property=<id> replay=<path>` line
exit 2: harness error (nondeterminism, lock contention, canonicalisation mismatch, crash of the
        machinery) -- never reported as a violation.
"""
import argparse
import hashlib
import importlib
import json
import os
import sys
import time
import traceback

ROOT = os.path.dirname(os.path.dirname(os.path.abspath(__file__)))
HASHSEED = os.environ.get('VP_HASHSEED', '0')


def _pin():
    if os.environ.get('PYTHONHASHSEED') != HASHSEED:
        os.environ['PYTHONHASHSEED'] = HASHSEED
        os.execv(sys.executable, [sys.executable, '-m', 'vp.check'] + sys.argv[1:])


class HarnessError(Exception):
    pass


class Ctx(object):
    def __init__(self, pid, tier, seed, budget=None):
        self.pid = pid
        self.tier = tier
        self.seed = seed
        self.t0 = time.time()
        self.budget = budget
        self.violations = []      # dicts: signature, message, replay
        self.coverage = {}
        self.assumptions = []
        self.level = 'model_checking'
        self.caps = []
        self.workers = int(os.environ.get('VP_WORKERS', '0')) or min(16, os.cpu_count() or 4)

    @property
    def quick(self):
        return self.tier == 'quick'

    def elapsed(self):
        return time.time() - self.t0

    def out_of_time(self, frac=1.0):
        return self.budget is not None and self.elapsed() > self.budget * frac

    def violation(self, signature, message, replay):
        for v in self.violations:
            if v['signature'] == signature:
                v['count'] += 1
                return
        self.violations.append({'signature': signature, 'message': message, 'replay': replay,
                                'count': 1})

    def new_violations(self):
        """Violations that are not recorded known findings of this property."""
        known = {k.get('signature') for k in load_known()
                 if k.get('property') == self.pid and k.get('status') == 'known'}
        return [v for v in self.violations if v['signature'] not in known]

    def cap(self, what):
        if what not in self.caps:
            self.caps.append(what)


def load_known():
    p = os.path.join(ROOT, 'known_findings.json')
    if not os.path.exists(p):
        return []
    with open(p) as f:
        return json.load(f).get('findings', [])


def write_evidence(ctx, nviol):
    cov = dict(ctx.coverage)
    cov.setdefault('caps_hit', ctx.caps)
    ev = {
        'property_id': ctx.pid, 'tier': ctx.tier, 'seed': ctx.seed, 'level': ctx.level,
        'coverage': cov, 'assumptions': ctx.assumptions, 'wall_s': round(ctx.elapsed(), 2),
        'violations': nviol,
    }
    d = os.path.join(ROOT, 'evidence')
    if os.environ.get('VP_REPO'):      # trial run against a scratch worktree: not evidence
        d = os.path.join(ROOT, 'replays', 'scratch-evidence')
    os.makedirs(d, exist_ok=True)
    path = os.path.join(d, ctx.pid + '.json')
    tmp = path + '.tmp%d' % os.getpid()
    with open(tmp, 'w') as f:
        json.dump(ev, f, indent=1, sort_keys=True, default=str)
    os.replace(tmp, path)
    return path


def main(argv=None):
    ap = argparse.ArgumentParser()
    ap.add_argument('pid')
    ap.add_argument('--tier', default=os.environ.get('VERIF_TIER', 'quick'),
                    choices=['quick', 'thorough'])
    ap.add_argument('--replay')
    ap.add_argument('--budget', type=float, default=None)
    args = ap.parse_args(argv)
    _pin()
    sys.path.insert(0, ROOT)
    # Default: `placement` is imported from /repo (editable install). VP_REPO=<dir> points the
    # checks at a scratch worktree instead (used only to try seeded changes without touching
    # /repo); the registered commands never set it.
    if os.environ.get('VP_REPO'):
        sys.path.insert(0, os.environ['VP_REPO'])
    try:
        seed = int(os.environ.get('VERIF_SEED', '0'))
    except ValueError:
        seed = 0
    pid = args.pid.upper()
    mod = importlib.import_module('vp.props.%s' % pid.lower())
    ctx = Ctx(pid, args.tier, seed, args.budget)

    if args.replay:
        with open(args.replay) as f:
            data = json.load(f)
        try:
            ok, msg = mod.replay(ctx, data)
        except HarnessError as e:
            print('HARNESS-ERROR %s' % e)
            return 2
        print(msg)
        if not ok:
            print('VIOLATION property=%s replay=%s' % (pid, args.replay))
            return 1
        print('replay: violation does not reproduce on this tree')
        return 0

    try:
        mod.run(ctx)
    except HarnessError as e:
        traceback.print_exc()
        print('HARNESS-ERROR property=%s %s' % (pid, e))
        return 2
    except Exception as e:
        traceback.print_exc()
        print('HARNESS-ERROR property=%s %r' % (pid, e))
        return 2

    known = [k for k in load_known() if k.get('property') == pid]
    known_sigs = {k['signature']: k for k in known if k.get('status', 'known') == 'known'}
    rdir = os.path.join(ROOT, 'replays')
    real = []
    for v in ctx.violations:
        if v['signature'] in known_sigs:
            print('KNOWN-FINDING: property=%s %s [%s] (x%d)' % (
                pid, known_sigs[v['signature']]['description'], v['signature'], v['count']))
            continue
        real.append(v)
    for v in real:
        os.makedirs(rdir, exist_ok=True)
        h = hashlib.sha1(v['signature'].encode()).hexdigest()[:10]
        path = os.path.join(rdir, '%s-%s.json' % (pid, h))
        rp = dict(v['replay'] or {})
        rp.update({'property': pid, 'signature': v['signature'], 'message': v['message'],
                   'hashseed': HASHSEED})
        with open(path, 'w') as f:
            json.dump(rp, f, indent=1, default=str)
        print('  %s (x%d)' % (v['message'], v['count']))
        print('VIOLATION property=%s replay=%s' % (pid, path))
    ctx.coverage['known_findings_seen'] = len(ctx.violations) - len(real)
    write_evidence(ctx, len(real))
    cov = ctx.coverage
    print('%s %s: %s wall=%.1fs caps=%s' % (
        pid, args.tier,
        ' '.join('%s=%s' % (k, cov[k]) for k in ('states', 'transitions', 'evaluations',
                                                 'distinct_nontrivial', 'exhaustive')
                 if k in cov), ctx.elapsed(), ctx.caps))
    return 1 if real else 0


if __name__ == '__main__':
    sys.exit(main())
