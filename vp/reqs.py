"""Builders for valid API requests in the body format of each microversion."""
from vp.http import R, SERVICE
from vp.names import pname


def ver(mv):
    if mv is None:
        return (1, 0)
    if mv == 'latest':
        return (1, 39)
    a, b = mv.split('.')
    return (int(a), int(b))


def mk_rp(i_or_uuid, name=None, parent=None, mv='1.39', tag=None, uuid=None):
    from vp.names import P
    u = uuid or (P(i_or_uuid) if isinstance(i_or_uuid, int) else i_or_uuid)
    body = {'name': name or (pname(i_or_uuid) if isinstance(i_or_uuid, int) else 'rp-' + u[-4:]),
            'uuid': u}
    if parent is not None:
        body['parent_provider_uuid'] = parent
    return R('POST', '/resource_providers', body, mv=mv, tag=tag or 'POST rp')


def del_rp(u, tag=None):
    return R('DELETE', '/resource_providers/' + u, tag=tag or 'DELETE rp')


def put_invs(rp, gen, invs, mv='1.39', tag=None):
    return R('PUT', '/resource_providers/%s/inventories' % rp,
             {'resource_provider_generation': gen, 'inventories': invs}, mv=mv,
             tag=tag or 'PUT inventories')


def put_inv(rp, rc, gen, inv, mv='1.39', tag=None):
    body = dict(inv)
    body['resource_provider_generation'] = gen
    return R('PUT', '/resource_providers/%s/inventories/%s' % (rp, rc), body, mv=mv,
             tag=tag or 'PUT inventory')


def post_inv(rp, rc, inv, mv='1.39', tag=None):
    body = dict(inv)
    body['resource_class'] = rc
    return R('POST', '/resource_providers/%s/inventories' % rp, body, mv=mv,
             tag=tag or 'POST inventory')


def del_inv(rp, rc, mv='1.39', tag=None):
    return R('DELETE', '/resource_providers/%s/inventories/%s' % (rp, rc), mv=mv,
             tag=tag or 'DELETE inventory')


def del_invs(rp, mv='1.39', tag=None):
    return R('DELETE', '/resource_providers/%s/inventories' % rp, mv=mv,
             tag=tag or 'DELETE inventories')


def put_traits(rp, gen, traits, mv='1.39', tag=None):
    return R('PUT', '/resource_providers/%s/traits' % rp,
             {'resource_provider_generation': gen, 'traits': list(traits)}, mv=mv,
             tag=tag or 'PUT rp traits')


def del_traits(rp, mv='1.39', tag=None):
    return R('DELETE', '/resource_providers/%s/traits' % rp, mv=mv, tag=tag or 'DELETE rp traits')


def put_aggs(rp, gen, aggs, mv='1.39', tag=None):
    if ver(mv) >= (1, 19):
        body = {'resource_provider_generation': gen, 'aggregates': list(aggs)}
    else:
        body = list(aggs)
    return R('PUT', '/resource_providers/%s/aggregates' % rp, body, mv=mv,
             tag=tag or 'PUT aggregates')


def alloc_body(allocs, mv, project='p1', user='u1', cgen=None, ctype='INSTANCE',
               mappings=None):
    """allocs: {rp_uuid: {rc: amount}}"""
    v = ver(mv)
    if v >= (1, 12):
        body = {'allocations': {rp: {'resources': dict(res)} for rp, res in allocs.items()}}
    else:
        body = {'allocations': [{'resource_provider': {'uuid': rp}, 'resources': dict(res)}
                                for rp, res in allocs.items()]}
    if v >= (1, 8):
        body['project_id'] = project
        body['user_id'] = user
    if v >= (1, 28):
        body['consumer_generation'] = cgen
    if v >= (1, 38):
        body['consumer_type'] = ctype
    if mappings is not None and v >= (1, 34):
        body['mappings'] = mappings
    return body


def put_alloc(consumer, allocs, mv='1.39', project='p1', user='u1', cgen=None, ctype='INSTANCE',
              tag=None, mappings=None):
    return R('PUT', '/allocations/' + consumer,
             alloc_body(allocs, mv, project, user, cgen, ctype, mappings), mv=mv,
             tag=tag or 'PUT allocations')


def post_allocs(entries, mv='1.39', tag=None):
    """entries: {consumer: dict(allocs=..., project=, user=, cgen=, ctype=)}"""
    body = {}
    for c, e in entries.items():
        body[c] = alloc_body(e.get('allocs', {}), mv, e.get('project', 'p1'), e.get('user', 'u1'),
                             e.get('cgen'), e.get('ctype', 'INSTANCE'))
    return R('POST', '/allocations', body, mv=mv, tag=tag or 'POST allocations')


def del_alloc(consumer, mv='1.39', tag=None):
    return R('DELETE', '/allocations/' + consumer, mv=mv, tag=tag or 'DELETE allocations')


def reshaper(invs, entries, mv='1.39', tag=None):
    """invs: {rp: (generation, {rc: inv})}; entries as for post_allocs."""
    body = {'inventories': {rp: {'resource_provider_generation': g, 'inventories': i}
                            for rp, (g, i) in invs.items()},
            'allocations': {}}
    for c, e in entries.items():
        body['allocations'][c] = alloc_body(e.get('allocs', {}), mv, e.get('project', 'p1'),
                                            e.get('user', 'u1'), e.get('cgen'),
                                            e.get('ctype', 'INSTANCE'))
    return R('POST', '/reshaper', body, mv=mv, tag=tag or 'POST reshaper', caller=SERVICE)


def put_trait(name, mv='1.39', tag=None):
    return R('PUT', '/traits/' + name, mv=mv, tag=tag or 'PUT trait')


def del_trait(name, mv='1.39', tag=None):
    return R('DELETE', '/traits/' + name, mv=mv, tag=tag or 'DELETE trait')


def post_class(name, mv='1.39', tag=None):
    return R('POST', '/resource_classes', {'name': name}, mv=mv, tag=tag or 'POST class')


def put_class(name, mv='1.39', body=None, tag=None):
    return R('PUT', '/resource_classes/' + name, body, mv=mv, tag=tag or 'PUT class')


def del_class(name, mv='1.39', tag=None):
    return R('DELETE', '/resource_classes/' + name, mv=mv, tag=tag or 'DELETE class')


def target_provider(req):
    """uuid of the provider a /resource_providers/{uuid}/... request addresses, else None"""
    parts = req['path'].split('/')
    if len(parts) >= 3 and parts[1] == 'resource_providers':
        return parts[2]
    return None


def placed(req):
    """{consumer: {(rp, rc): amount}} a allocation-writing request asks for (positive amounts)."""
    body = req.get('body')
    out = {}
    if not isinstance(body, dict):
        return out
    path = req['path']

    def one(entry):
        a = entry.get('allocations')
        res = {}
        if isinstance(a, dict):
            for rp, x in a.items():
                for rc, amt in x.get('resources', {}).items():
                    res[(rp, rc)] = res.get((rp, rc), 0) + amt
        elif isinstance(a, list):
            for x in a:
                rp = x['resource_provider']['uuid']
                for rc, amt in x.get('resources', {}).items():
                    res[(rp, rc)] = res.get((rp, rc), 0) + amt
        return res
    if path.startswith('/allocations/') and req['method'] == 'PUT':
        out[path.split('/')[2]] = one(body)
    elif path == '/allocations' and req['method'] == 'POST':
        for c, e in body.items():
            out[c] = one(e)
    elif path == '/reshaper':
        for c, e in body.get('allocations', {}).items():
            out[c] = one(e)
    return out
