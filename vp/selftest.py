"""Harness self-test: boot, snapshot round trip, determinism of one request."""
import os
import sys

if os.environ.get('PYTHONHASHSEED') != '0':
    os.environ['PYTHONHASHSEED'] = '0'
    os.execv(sys.executable, [sys.executable, '-m', 'vp.selftest'])

from vp.boot import Harness  # noqa
from vp.http import R, call  # noqa
from vp.names import P  # noqa
from vp.probe import Probe, Run  # noqa
from vp.snapshot import Dump  # noqa


def main():
    h = Harness()
    p = Probe(h)
    base = h.read_image()
    logs = []
    for i in range(2):
        h.write_image(base)
        run = Run()
        p.cur = run
        r = call(h.app, R('POST', '/resource_providers', {'name': 'x', 'uuid': P(1)}))
        p.cur = None
        assert r.status == 200, r.raw
        logs.append((r.status, run.stmts, Dump(h.dbfile).core()))
    assert logs[0] == logs[1], 'nondeterministic'
    h.write_image(base)
    assert Dump(h.dbfile).providers == {}
    print('selftest ok')


if __name__ == '__main__':
    main()
