"""Harness self-test: boot, snapshot round trip, determinism of one request."""
import os
import sys

if os.environ.get('PYTHONHASHSEED') != '0':
    os.environ['PYTHONHASHSEED'] = '0'
    os.execv(sys.executable, [sys.executable, '-m', 'vp.selftest'] + sys.argv[1:])

from vp.boot import Harness  # noqa
from vp.http import R, call  # noqa
from vp.names import P  # noqa
from vp.probe import Probe, Run  # noqa
from vp.snapshot import Dump  # noqa


def main():
    h = Harness()
    p = Probe(h)
    base = h.read_image()
    logs = []
    for i in range(2):
        h.write_image(base)
        run = Run()
        p.cur = run
        r = call(h.app, R('POST', '/resource_providers', {'name': 'x', 'uuid': P(1)}))
        p.cur = None
        assert r.status == 200, r.raw
        logs.append((r.status, run.stmts, Dump(h.dbfile).core()))
    assert logs[0] == logs[1], 'nondeterministic'
    h.write_image(base)
    assert Dump(h.dbfile).providers == {}
    # one Harness per process: the E-conc part runs in a process of its own
    import subprocess
    subprocess.check_call([sys.executable, '-m', 'vp.selftest', '--conc'])
    print('selftest ok')


def conc_selftest():
    """E-conc bookkeeping: after every scheduling step the table digests that enter the state key
    equal digests computed from scratch (they once lagged one commit behind), the schedule
    [read1, write0.., write1] is explored as a class of its own, and replaying one schedule twice
    gives identical observations."""
    from vp import explore_conc, reqs
    from vp.boot import make_base_image
    from vp.explore_conc import TABLES, Execution
    eng = explore_conc.Engine(make_base_image())
    setup = [reqs.mk_rp(1)]
    rq = [reqs.put_invs(P(1), 0, {'VCPU': {'total': 8}}, tag='PUT inventories'),
          R('PUT', '/resource_providers/' + P(1), {'name': 'renamed'}, mv='1.39', tag='rename')]
    img = eng.build(setup)
    eng.h.write_image(img)
    ex0 = Execution(eng, rq, ())
    ex0._digest_tables(TABLES)
    eng.start_digests = dict(ex0.tabdig)
    ex = Execution(eng, rq, (0, 1, 0, 1))
    ex.start()
    for c in (0, 1, 0, 1):
        ex.step(c)
        ex.key()
        fresh = Execution(eng, rq, ())
        fresh._digest_tables(TABLES)
        assert ex.tabdig == fresh.tabdig, 'stale table digest after step of request %d' % c
    leaves = []
    eng.explore(img, rq, leaf=lambda e, d: leaves.append(tuple(e.choices)))
    assert (0, 1, 0, 1) in leaves or (1, 0, 0, 1) in leaves, leaves
    a, da = eng.run_schedule(img, rq, [0, 1, 0, 1])
    b, db = eng.run_schedule(img, rq, [0, 1, 0, 1])
    assert a.obs == b.obs and da.core(gens=True) == db.core(gens=True), 'replay diverged'


if __name__ == '__main__':
    if '--conc' in sys.argv:
        conc_selftest()
    else:
        main()
