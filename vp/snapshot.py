"""Raw-row dumps of the placement database, natural-key normalisation and canonical keys."""
import hashlib
import sqlite3

import os_resource_classes as orc
import os_traits

STD_TRAITS = frozenset(os_traits.get_traits())
STD_CLASSES = tuple(orc.STANDARDS)
STD_CLASS_SET = frozenset(STD_CLASSES)
INV_FIELDS = ('total', 'reserved', 'min_unit', 'max_unit', 'step_size', 'allocation_ratio')


class Dump(object):
    """All durable state, keyed naturally. Dangling references show up as ('?', id)."""

    def __init__(self, dbfile):
        c = sqlite3.connect('file:%s?mode=ro' % dbfile, uri=True)
        try:
            q = c.execute
            rps = q('select id, uuid, name, generation, root_provider_id, parent_provider_id '
                    'from resource_providers').fetchall()
            rcs = q('select id, name from resource_classes').fetchall()
            trs = q('select id, name from traits').fetchall()
            aggs = q('select id, uuid from placement_aggregates').fetchall()
            projs = q('select id, external_id from projects').fetchall()
            users = q('select id, external_id from users').fetchall()
            types = q('select id, name from consumer_types').fetchall()
            invs = q('select resource_provider_id, resource_class_id, total, reserved, min_unit,'
                     ' max_unit, step_size, allocation_ratio from inventories').fetchall()
            allocs = q('select consumer_id, resource_provider_id, resource_class_id, used '
                       'from allocations').fetchall()
            cons = q('select uuid, project_id, user_id, consumer_type_id, generation '
                     'from consumers').fetchall()
            rpt = q('select resource_provider_id, trait_id from resource_provider_traits'
                    ).fetchall()
            rpa = q('select resource_provider_id, aggregate_id from resource_provider_aggregates'
                    ).fetchall()
        finally:
            c.close()
        rp_by_id = {r[0]: r[1] for r in rps}
        rc_by_id = {r[0]: r[1] for r in rcs}
        tr_by_id = {r[0]: r[1] for r in trs}
        ag_by_id = {r[0]: r[1] for r in aggs}
        pj_by_id = {r[0]: r[1] for r in projs}
        us_by_id = {r[0]: r[1] for r in users}
        ty_by_id = {r[0]: r[1] for r in types}

        def ref(m, i):
            if i is None:
                return None
            return m.get(i, ('?', i))

        self.rp_ids = {r[1]: r[0] for r in rps}
        self.providers = {
            r[1]: {'name': r[2], 'gen': r[3], 'root': ref(rp_by_id, r[4]),
                   'parent': ref(rp_by_id, r[5])} for r in rps}
        self.n_provider_rows = len(rps)
        self.classes = {r[1]: r[0] for r in rcs}
        self.n_class_rows = len(rcs)
        self.traits = frozenset(r[1] for r in trs)
        self.n_trait_rows = len(trs)
        self.aggs = frozenset(r[1] for r in aggs)
        self.projects = frozenset(r[1] for r in projs)
        self.users = frozenset(r[1] for r in users)
        self.types = frozenset(r[1] for r in types)
        self.inv_rows = [(ref(rp_by_id, r[0]), ref(rc_by_id, r[1])) + tuple(r[2:]) for r in invs]
        self.inventories = {(r[0], r[1]): dict(zip(INV_FIELDS, r[2:])) for r in self.inv_rows}
        self.alloc_rows = sorted(
            ((r[0], ref(rp_by_id, r[1]), ref(rc_by_id, r[2]), r[3]) for r in allocs),
            key=repr)
        self.allocations = {}
        for cu, rp, rc, used in self.alloc_rows:
            self.allocations[(cu, rp, rc)] = self.allocations.get((cu, rp, rc), 0) + used
        self.consumers = {
            r[0]: {'project': ref(pj_by_id, r[1]), 'user': ref(us_by_id, r[2]),
                   'type': ref(ty_by_id, r[3]), 'gen': r[4]} for r in cons}
        self.n_consumer_rows = len(cons)
        self.rp_traits = frozenset((ref(rp_by_id, r[0]), ref(tr_by_id, r[1])) for r in rpt)
        self.rp_aggs = frozenset((ref(rp_by_id, r[0]), ref(ag_by_id, r[1])) for r in rpa)

    # -- derived views -----------------------------------------------------------------
    def used(self):
        u = {}
        for (cu, rp, rc), amt in self.allocations.items():
            u[(rp, rc)] = u.get((rp, rc), 0) + amt
        return u

    def custom_traits(self):
        return self.traits - STD_TRAITS

    def custom_classes(self):
        return {n: i for n, i in self.classes.items() if n not in STD_CLASS_SET}

    def children(self):
        ch = {}
        for u, p in self.providers.items():
            ch.setdefault(p['parent'], []).append(u)
        return ch

    def tree_of(self, uuid):
        """Providers whose parent chain leads to the same top as uuid's (computed from parents)."""
        top = self.top_of(uuid)
        return {u for u in self.providers if self.top_of(u) == top}

    def top_of(self, uuid):
        seen = set()
        cur = uuid
        while True:
            if cur in seen or cur not in self.providers:
                return ('loop', cur)
            seen.add(cur)
            p = self.providers[cur]['parent']
            if p is None:
                return cur
            cur = p

    # -- comparisons -------------------------------------------------------------------
    def core(self, gens=True, aux=False, class_ids=False):
        """Hashable canonical form.

        gens: include generation values.  aux: include projects/users/consumer types
        (the residue a rejected request may leave).  class_ids: keep custom class ids.
        """
        provs = tuple(sorted(
            (u, p['name'], repr(p['parent']), repr(p['root'])) + ((p['gen'],) if gens else ())
            for u, p in self.providers.items()))
        invs = tuple(sorted((repr(r[0]), repr(r[1])) + r[2:] for r in self.inv_rows))
        allocs = tuple((a[0], repr(a[1]), repr(a[2]), a[3]) for a in self.alloc_rows)
        cons = tuple(sorted(
            (u, repr(c['project']), repr(c['user']), repr(c['type'])) +
            ((c['gen'],) if gens else ()) for u, c in self.consumers.items()))
        cc = self.custom_classes()
        classes = tuple(sorted(cc.items())) if class_ids else tuple(sorted(cc))
        key = (provs, invs, allocs, cons, classes,
               tuple(sorted(self.custom_traits())),
               tuple(sorted(STD_TRAITS - self.traits)),
               tuple(sorted(STD_CLASS_SET - set(self.classes))),
               tuple(sorted(map(repr, self.rp_traits))),
               tuple(sorted(map(repr, self.rp_aggs))),
               self.n_provider_rows, self.n_consumer_rows, self.n_class_rows,
               self.n_trait_rows)
        if aux:
            key = key + (tuple(sorted(self.projects)), tuple(sorted(self.users)),
                         tuple(sorted(self.types)), tuple(sorted(self.aggs)))
        return key

    def key(self, **kw):
        return hashlib.blake2b(repr(self.core(**kw)).encode(), digest_size=16).hexdigest()

    def gens(self):
        return ({u: p['gen'] for u, p in self.providers.items()},
                {u: c['gen'] for u, c in self.consumers.items()})

    def brief(self):
        return {
            'providers': {u: (p['name'], p['parent'], p['root'], p['gen'])
                          for u, p in sorted(self.providers.items())},
            'inventories': {'%s/%s' % k: v for k, v in sorted(self.inventories.items(),
                                                             key=repr)},
            'allocations': ['%s %s/%s=%s' % a for a in self.alloc_rows],
            'consumers': {u: (c['project'], c['user'], c['type'], c['gen'])
                          for u, c in sorted(self.consumers.items())},
            'rp_traits': sorted(map(list, self.rp_traits), key=repr),
            'rp_aggs': sorted(map(list, self.rp_aggs), key=repr),
            'custom_classes': self.custom_classes(),
            'custom_traits': sorted(self.custom_traits()),
        }


def diff(a, b, gens=True, aux=False):
    """Human-readable differences between two dumps (empty list = equal core)."""
    out = []
    ka, kb = a.core(gens=gens, aux=aux, class_ids=True), b.core(gens=gens, aux=aux,
                                                               class_ids=True)
    names = ['providers', 'inventories', 'allocations', 'consumers', 'custom_classes',
             'custom_traits', 'missing_std_traits', 'missing_std_classes', 'rp_traits', 'rp_aggs',
             'n_provider_rows', 'n_consumer_rows', 'n_class_rows', 'n_trait_rows', 'projects',
             'users', 'types', 'aggs']
    for n, x, y in zip(names, ka, kb):
        if x != y:
            if isinstance(x, tuple):
                sx, sy = set(x), set(y)
                out.append('%s: -%s +%s' % (n, sorted(sx - sy, key=repr)[:6],
                                             sorted(sy - sx, key=repr)[:6]))
            else:
                out.append('%s: %r -> %r' % (n, x, y))
    return out


# -- invariants (evaluated on the raw dump, no model involved) ----------------------------

def capacity(inv):
    """(total - reserved) * allocation_ratio in IEEE double arithmetic (the arithmetic of the
    API's JSON numbers) -- deliberately not the code's SQL nor its int() truncation."""
    return (inv['total'] - inv['reserved']) * float(inv['allocation_ratio'])


def overcommitted(d):
    out = {}
    for k, u in d.used().items():
        inv = d.inventories.get(k)
        if inv is None:
            out[k] = (u, None)
        elif u > capacity(inv):
            out[k] = (u, capacity(inv))
    return out


def inv_ref(d):
    """INV-ref (C08): nothing dangles."""
    bad = []
    for cu, rp, rc, used in d.alloc_rows:
        if isinstance(rp, tuple):
            bad.append('allocation of %s refers to missing provider %r' % (cu, rp))
        if isinstance(rc, tuple):
            bad.append('allocation of %s refers to missing class %r' % (cu, rc))
        elif (rp, rc) not in d.inventories:
            bad.append('allocation of %s on %s/%s has no inventory' % (cu, rp, rc))
        if cu not in d.consumers:
            bad.append('allocation refers to unrecorded consumer %s' % cu)
    for rp, rc in d.inventories:
        if isinstance(rp, tuple):
            bad.append('inventory refers to missing provider %r' % (rp,))
        if isinstance(rc, tuple):
            bad.append('inventory refers to missing class %r' % (rc,))
    for rp, t in d.rp_traits:
        if isinstance(rp, tuple) or isinstance(t, tuple):
            bad.append('trait association dangles: %r %r' % (rp, t))
    for rp, a in d.rp_aggs:
        if isinstance(rp, tuple) or isinstance(a, tuple):
            bad.append('aggregate association dangles: %r %r' % (rp, a))
    for u, c in d.consumers.items():
        for f in ('project', 'user'):
            if isinstance(c[f], tuple) or c[f] is None:
                bad.append('consumer %s has dangling %s %r' % (u, f, c[f]))
        if isinstance(c['type'], tuple):
            bad.append('consumer %s has dangling type %r' % (u, c['type']))
    return bad


def inv_forest(d):
    """INV-forest (C09): parents exist, no cycles, root pointer = top of parent chain."""
    bad = []
    for u, p in d.providers.items():
        if isinstance(p['parent'], tuple):
            bad.append('%s: parent row missing %r' % (u, p['parent']))
            continue
        top = d.top_of(u)
        if isinstance(top, tuple):
            bad.append('%s: parent chain loops or breaks at %r' % (u, top))
        elif p['root'] != top:
            bad.append('%s: root pointer %r but top of parent chain is %r' % (u, p['root'], top))
    return bad


def inv_consumer(d):
    """INV-consumer (C12): a consumer row exists iff it holds >= 1 allocation."""
    holders = {a[0] for a in d.alloc_rows}
    bad = []
    for u in d.consumers:
        if u not in holders:
            bad.append('consumer %s recorded but holds no allocation' % u)
    for u in holders:
        if u not in d.consumers:
            bad.append('consumer %s holds allocations but is not recorded' % u)
    return bad
