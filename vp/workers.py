"""Process pool: every worker boots its own application + scratch database.

The master never boots placement; results are consumed in task order, so verdicts and
frontiers do not depend on worker timing.
"""
import importlib
import multiprocessing
import os
import pickle
import traceback
import zlib

_W = {}


def _init(modname, factory, args):
    os.environ.setdefault('PYTHONHASHSEED', '0')
    # never raise here: multiprocessing.Pool would respawn the worker forever
    try:
        mod = importlib.import_module(modname)
        _W['spec'] = getattr(mod, factory)(*args)
    except BaseException as e:  # noqa
        _W['init_error'] = '%r\n%s' % (e, traceback.format_exc())


def _work(task):
    if 'init_error' in _W:
        return ('err', 'worker initialisation failed: ' + _W['init_error'])
    try:
        return ('ok', _W['spec'].work(task))
    except BaseException as e:  # noqa
        return ('err', '%r\n%s' % (e, traceback.format_exc()))


class Pool(object):
    def __init__(self, n, modname, factory, args=()):
        import atexit
        import shutil
        import tempfile
        self.n = n
        # scratch databases of all workers live under one directory the master removes
        self.shm = tempfile.mkdtemp(prefix='vp-pool-', dir='/dev/shm')
        os.environ['VP_SHM_PARENT'] = self.shm
        atexit.register(shutil.rmtree, self.shm, True)
        if n <= 1:
            _init(modname, factory, args)
            self.pool = None
        else:
            ctx = multiprocessing.get_context('fork')
            self.pool = ctx.Pool(n, initializer=_init, initargs=(modname, factory, args))

    def map(self, tasks, chunksize=1):
        from vp.check import HarnessError
        if self.pool is None:
            it = (_work(t) for t in tasks)
        else:
            it = self.pool.imap(_work, tasks, chunksize)
        for kind, res in it:
            if kind == 'err':
                raise HarnessError('worker failed: %s' % res)
            yield res

    def close(self):
        import shutil
        if self.pool is not None:
            self.pool.terminate()
            self.pool.join()
        shutil.rmtree(self.shm, True)
        os.environ.pop('VP_SHM_PARENT', None)


PAGE = 4096


def encode_image(image, base):
    """Page diff against the base image, compressed."""
    n = len(image)
    pages = []
    for off in range(0, n, PAGE):
        pg = image[off:off + PAGE]
        if base[off:off + PAGE] != pg:
            pages.append((off, pg))
    return zlib.compress(pickle.dumps((n, pages), 4), 1)


def decode_image(blob, base):
    n, pages = pickle.loads(zlib.decompress(blob))
    buf = bytearray(base[:n])
    if len(buf) < n:
        buf.extend(b'\0' * (n - len(buf)))
    for off, pg in pages:
        buf[off:off + len(pg)] = pg
    return bytes(buf)
