"""Reads overlapped by writes (E-conc part of C03 and C13).

The two properties quantify over database states; a request that is served while writes commit
must still answer for ONE of the states that existed while it ran. Every interleaving (top-level
transaction granularity) of one GET with one or two writers is executed on the real service and
the GET's body is compared (lists as multisets) with the bodies it gets in the serial orders of
the same requests -- a differential oracle without hand-written expectation. On the unchanged tree
a listing / candidate search runs in one reader transaction, so this part mainly guards that
property (a look-up hoisted out of the snapshot is what it is meant to catch).
"""
from vp import reqs
from vp.http import R
from vp.names import A, K, P

T1 = 'HW_CPU_X86_AVX'
T2 = 'HW_CPU_X86_AVX2'


def base():
    """P1 root (VCPU 4, DISK_GB 12; T1; A1) | P2 root (VCPU 8; A1) with child P3 (DISK_GB 12) |
    P4 root (DISK_GB 12), never parented.  Generations: P1 = 3, P2 = 2, P3 = 1, P4 = 1."""
    return [reqs.mk_rp(1), reqs.mk_rp(2), reqs.mk_rp(3, parent=P(2)), reqs.mk_rp(4),
            reqs.put_invs(P(1), 0, {'VCPU': {'total': 4}, 'DISK_GB': {'total': 12}}),
            reqs.put_invs(P(2), 0, {'VCPU': {'total': 8}}),
            reqs.put_invs(P(3), 0, {'DISK_GB': {'total': 12}}),
            reqs.put_invs(P(4), 0, {'DISK_GB': {'total': 12}}),
            reqs.put_traits(P(1), 1, [T1]), reqs.put_aggs(P(1), 2, [A(1)]),
            reqs.put_aggs(P(2), 1, [A(1)])]


def flat():
    """No provider has a parent yet: P1 (VCPU 4), P4 (DISK_GB 12)."""
    return [reqs.mk_rp(1), reqs.mk_rp(4),
            reqs.put_invs(P(1), 0, {'VCPU': {'total': 4}}),
            reqs.put_invs(P(4), 0, {'DISK_GB': {'total': 12}})]


def put_rp(i, parent, name=None):
    from vp.names import pname
    return R('PUT', '/resource_providers/' + P(i),
             {'name': name or pname(i), 'parent_provider_uuid': parent}, mv='1.37')


def writers():
    return {
        'PUT P1 under P2': put_rp(1, P(2)),
        'PUT P3 to top': put_rp(3, None),
        'PUT P4 under P1': put_rp(4, P(1)),
        'reshaper: VCPU leaves P1, DISK_GB arrives on P2': reqs.reshaper(
            {P(1): (3, {'DISK_GB': {'total': 12}}),
             P(2): (2, {'VCPU': {'total': 8}, 'DISK_GB': {'total': 12}})}, {}),
        'PUT inventories P1 (DISK_GB only)': reqs.put_invs(P(1), 3, {'DISK_GB': {'total': 12}}),
        'PUT inventories P2 (+DISK_GB)': reqs.put_invs(
            P(2), 2, {'VCPU': {'total': 8}, 'DISK_GB': {'total': 12}}),
        'PUT traits P1 (T1 -> T2)': reqs.put_traits(P(1), 3, [T2]),
        'PUT traits P2 (+T1)': reqs.put_traits(P(2), 2, [T1]),
        'PUT aggregates P1 (A1 -> A2)': reqs.put_aggs(P(1), 3, [A(2)]),
        'PUT aggregates P4 (+A1)': reqs.put_aggs(P(4), 1, [A(1)]),
        'PUT allocations K1 (3 VCPU of P1)': reqs.put_alloc(K(1), {P(1): {'VCPU': 3}}),
        'DELETE P4': reqs.del_rp(P(4)),
        'POST P5 under P1': reqs.mk_rp(5, parent=P(1)),
        'PUT inventories P5 (VCPU + DISK_GB)': reqs.put_invs(
            P(5), 0, {'VCPU': {'total': 4}, 'DISK_GB': {'total': 12}}),
    }


def scenarios(route, queries, pairs, triples=(), flat_pairs=(), flat_triples=()):
    w = writers()
    out = []

    def get(q):
        return R('GET', route, query=queries[q], mv='1.39', tag='GET %s?%s' % (route, q))
    for q, wn in pairs:
        b = dict(w[wn])
        b['tag'] = wn
        out.append({'name': '%s || %s' % (q, wn), 'setup': base(), 'requests': [get(q), b],
                    'bound': None, 'max_exec': 3000})
    for q, wn in flat_pairs:
        b = dict(w[wn])
        b['tag'] = wn
        out.append({'name': 'flat: %s || %s' % (q, wn), 'setup': flat(),
                    'requests': [get(q), b], 'bound': None, 'max_exec': 3000})
    for setup, pre, trs in ((base(), '', triples), (flat(), 'flat: ', flat_triples)):
        for q, w1, w2 in trs:
            b, c = dict(w[w1]), dict(w[w2])
            b['tag'], c['tag'] = w1, w2
            out.append({'name': '%s%s || %s || %s' % (pre, q, w1, w2), 'setup': setup,
                        'requests': [get(q), b, c], 'bound': 2, 'max_exec': 4000})
    return out


def run_part(ctx, prop, sc):
    from vp import explore_conc
    tot = explore_conc.run_scenarios(ctx, prop, sc)
    ctx.coverage['concurrent_part'] = {
        'scenarios': tot['scenarios'], 'scenarios_planned': len(sc), 'states': tot['states'],
        'transitions': tot['transitions'], 'schedules_executed': tot['executions'],
        'outcome_vectors': tot['outcome_vectors'],
        'transactions_of_the_read': 'see samples; one reader transaction on the unchanged tree',
        'rule': 'one GET overlapped by one or two writers, ALL interleavings at top-level-'
                'transaction granularity (triples: preemption bound 2); the body of the GET (lists '
                'as multisets) must be one it gets in some serial order of the same requests; no '
                '5xx; the writers\' final rows equal a serial order'}
    return tot
