"""E-fault and E-crash: a database fault, or the death of the process, at every statement and
commit boundary of every request of a write corpus, on the real service.

Fault kinds (injected from the SQLAlchemy `before_cursor_execute` hook, i.e. above the driver):

  deadlock-stmt   raise oslo_db DBDeadlock before statement k; the transaction stays open
                  (lock-wait timeout)
  deadlock-txn    DB-API rollback on the connection (the DBMS has rolled the whole transaction
                  back and a new one starts silently, as InnoDB does for a deadlock victim),
                  then raise DBDeadlock
  dup-key         raise DBDuplicateEntry, only where statement k is an INSERT
  conn            raise DBConnectionError
  generic         raise DBError
  raw             raise sqlite3.OperationalError (below oslo.db's filters)

Crash points: before statement k, after statement k, before commit j, after the request's last
commit but before its clean-up/answer is implied by "before statement k" of the following
transaction. At the point the hook raises SimulatedCrash(BaseException) and marks the request
dead (nothing after the crash point can reach the database). The survivor is computed twice and
must agree: (a) a copy of the database file + rollback journal taken at the crash instant and
recovered by SQLite itself on open, (b) the file left after unwinding.
"""
import os
import shutil
import sqlite3
import sys

from vp import http, reqs
from vp.boot import Harness
from vp.check import HarnessError
from vp.names import A, K, P, UNKNOWN_UUID
from vp.probe import Probe, Run, SimulatedCrash, is_write
from vp.snapshot import (Dump, capacity, diff, inv_forest, inv_ref, overcommitted)

FAULT_KINDS = ('deadlock-stmt', 'deadlock-txn', 'dup-key', 'conn', 'generic', 'raw')
RETRY_FUNCS = ('_set_allocations', '_set_aggregates', '_trait_sync', '_resource_classes_sync')

T1, T2 = 'HW_CPU_X86_AVX', 'HW_CPU_X86_AVX2'


# ---------------------------------------------------------------------------------------------
# corpus
# ---------------------------------------------------------------------------------------------

def corpus():
    """-> list of dict(name, setup, req | restart, expect_ok)"""
    four = {'total': 4}
    base = [reqs.mk_rp(1), reqs.mk_rp(2, parent=P(1)), reqs.mk_rp(3),
            reqs.put_invs(P(1), 0, {'VCPU': four, 'DISK_GB': {'total': 10}}),
            reqs.put_invs(P(2), 0, {'VCPU': four}),
            reqs.put_traits(P(1), 1, [T1]), reqs.put_aggs(P(1), 2, [A(1)]),
            reqs.post_class('CUSTOM_X'), reqs.put_trait('CUSTOM_T1')]
    used = base + [reqs.put_alloc(K(1), {P(1): {'VCPU': 1, 'DISK_GB': 2}}),
                   reqs.put_alloc(K(2), {P(1): {'VCPU': 1}, P(2): {'VCPU': 2}}, project='p2',
                                  user='u2', ctype='MIGRATION')]
    # generations after `base`: P1 = 3, P2 = 1, P3 = 0; after `used`: P1 = 5, P2 = 2
    c = []

    def add(name, setup, req, ok=True):
        c.append({'name': name, 'setup': setup, 'req': req, 'ok': ok})
    add('PUT allocations new consumer', base,
        reqs.put_alloc(K(3), {P(1): {'VCPU': 2}, P(2): {'VCPU': 1}}, project='p3', user='u3',
                       ctype='NEWTYPE'))
    add('PUT allocations existing consumer, other project/type', used,
        reqs.put_alloc(K(1), {P(2): {'VCPU': 1}}, cgen=1, project='p9', user='u9',
                       ctype='MIGRATION'))
    add('PUT allocations new consumer over capacity', used,
        reqs.put_alloc(K(3), {P(1): {'VCPU': 1}, P(2): {'VCPU': 3}}, project='p3', user='u3'),
        ok=False)
    add('PUT allocations clear', used, reqs.put_alloc(K(1), {}, cgen=1))
    add('POST allocations new + existing consumer', used,
        reqs.post_allocs({K(3): {'allocs': {P(1): {'VCPU': 1}}, 'project': 'p3', 'user': 'u3'},
                          K(1): {'allocs': {P(2): {'VCPU': 1}}, 'cgen': 1, 'project': 'p9'}}))
    add('POST allocations second entry over capacity', used,
        reqs.post_allocs({K(3): {'allocs': {P(1): {'VCPU': 1}}, 'project': 'p3', 'user': 'u3'},
                          K(1): {'allocs': {P(2): {'VCPU': 4}}, 'cgen': 1, 'project': 'p9'}}),
        ok=False)
    # the "move" shape (nova migrations): one consumer gives up everything, another takes over
    add('POST allocations move: existing consumer cleared, new consumer written', used,
        reqs.post_allocs({K(1): {'allocs': {}, 'cgen': 1},
                          K(3): {'allocs': {P(1): {'VCPU': 1, 'DISK_GB': 2}}, 'project': 'p3',
                                 'user': 'u3'}}))
    add('POST allocations move rejected: new consumer over capacity', used,
        reqs.post_allocs({K(1): {'allocs': {}, 'cgen': 1},
                          K(3): {'allocs': {P(2): {'VCPU': 4}}, 'project': 'p3', 'user': 'u3'}}),
        ok=False)
    add('DELETE allocations', used, reqs.del_alloc(K(2)))
    add('reshaper move VCPU of P1 to P3', used,
        reqs.reshaper({P(1): (5, {'DISK_GB': {'total': 10}}), P(3): (0, {'VCPU': {'total': 8}})},
                      {K(1): {'allocs': {P(3): {'VCPU': 1}, P(1): {'DISK_GB': 2}}, 'cgen': 1},
                       K(2): {'allocs': {P(3): {'VCPU': 1}, P(2): {'VCPU': 2}}, 'cgen': 1,
                              'project': 'p2', 'user': 'u2', 'ctype': 'MIGRATION'}}))
    add('reshaper rejected: inventory still in use', used,
        reqs.reshaper({P(1): (5, {'DISK_GB': {'total': 10}}), P(3): (0, {'VCPU': {'total': 8}})},
                      {K(1): {'allocs': {P(3): {'VCPU': 1}, P(1): {'DISK_GB': 2}}, 'cgen': 1}}),
        ok=False)
    add('reshaper without allocations, two providers', base,
        reqs.reshaper({P(1): (3, {'VCPU': four}), P(3): (0, {'DISK_GB': {'total': 10}})}, {}))
    add('PUT inventories add/update/delete classes', base,
        reqs.put_invs(P(1), 3, {'VCPU': {'total': 8}, 'MEMORY_MB': {'total': 64}}))
    add('PUT inventories rejected: in use', used,
        reqs.put_invs(P(1), 5, {'MEMORY_MB': {'total': 64}}), ok=False)
    add('POST inventory', base, reqs.post_inv(P(3), 'CUSTOM_X', {'total': 3}))
    add('PUT inventory', base, reqs.put_inv(P(1), 'VCPU', 3, {'total': 16, 'reserved': 1}))
    add('DELETE inventory', base, reqs.del_inv(P(1), 'DISK_GB'))
    add('DELETE inventories', base, reqs.del_invs(P(1)))
    add('PUT provider traits', base, reqs.put_traits(P(1), 3, [T2, 'CUSTOM_T1']))
    add('DELETE provider traits', base, reqs.del_traits(P(1)))
    add('PUT aggregates with a never-seen aggregate', base, reqs.put_aggs(P(1), 3, [A(1), A(2)]))
    add('PUT aggregates below 1.19', base, reqs.put_aggs(P(2), None, [A(3)], mv='1.18'))
    add('POST resource provider (child)', base, reqs.mk_rp(4, parent=P(2)))
    add('PUT resource provider rename + re-parent subtree', base,
        http.R('PUT', '/resource_providers/' + P(1), {'name': 'rp1-moved',
                                                      'parent_provider_uuid': P(3)}, mv='1.37',
               tag='PUT rp'))
    add('DELETE resource provider with inventories/traits/aggregates', base +
        [reqs.put_traits(P(2), 1, [T1]), reqs.put_aggs(P(2), 2, [A(1)])], reqs.del_rp(P(2)))
    add('DELETE resource provider rejected: has children', base, reqs.del_rp(P(1)), ok=False)
    add('POST resource class', base, reqs.post_class('CUSTOM_Y'))
    add('PUT resource class (1.7)', base, reqs.put_class('CUSTOM_Y', mv='1.7'))
    add('PUT resource class rename (1.6)', base,
        reqs.put_class('CUSTOM_X', mv='1.6', body={'name': 'CUSTOM_Z'}))
    add('DELETE resource class', base, reqs.del_class('CUSTOM_X'))
    add('PUT trait', base, reqs.put_trait('CUSTOM_T2'))
    add('DELETE trait', base, reqs.del_trait('CUSTOM_T1'))
    # start-up synchronisation
    c.append({'name': 'restart on a fully synchronised database', 'setup': base, 'restart': 'full',
              'ok': True})
    c.append({'name': 'restart on a partially synchronised database', 'setup': base,
              'restart': 'partial', 'ok': True})
    c.append({'name': 'restart on a never synchronised database', 'setup': [],
              'restart': 'empty', 'ok': True})
    return c


CORE_TABLES = ('providers', 'inventories', 'allocations', 'consumers', 'rp_traits', 'rp_aggs')


def coreview(d, gens=False, consumers=True):
    """providers, inventories, trait/aggregate associations, allocations (and consumers)"""
    provs = tuple(sorted((u, p['name'], repr(p['parent']), repr(p['root'])) +
                         ((p['gen'],) if gens else ()) for u, p in d.providers.items()))
    invs = tuple(sorted((repr(r[0]), repr(r[1])) + r[2:] for r in d.inv_rows))
    allocs = tuple((a[0], repr(a[1]), repr(a[2]), a[3]) for a in d.alloc_rows)
    cons = tuple(sorted((u, repr(c['project']), repr(c['user']), repr(c['type'])) +
                        ((c['gen'],) if gens else ()) for u, c in d.consumers.items())) \
        if consumers else ()
    return (provs, invs, allocs, cons, tuple(sorted(map(repr, d.rp_traits))),
            tuple(sorted(map(repr, d.rp_aggs))), tuple(sorted(d.custom_classes().items())),
            tuple(sorted(d.custom_traits())), d.n_provider_rows,
            d.n_consumer_rows if consumers else 0)


class FaultWorker(object):
    def __init__(self, base_image):
        import oslo_db.api
        self.h = Harness(image=base_image)
        self.base = base_image
        self.probe = Probe(self.h)
        self.images = {}
        self._baselines = {}
        # own the clock: wrap_db_retry sleeps between retries
        oslo_db.api.time = _NoSleepTime()
        self.side = os.path.join(self.h.dir, 'crashcopy.db')
        # process death drops every connection: remember the DB-API connections so that a crash
        # run can close whatever the unwinding left open
        from sqlalchemy import event
        self.conns = []
        event.listen(self.h.engine, 'connect', lambda dbapi_conn, rec: self.conns.append(
            dbapi_conn))

    # -- plumbing ------------------------------------------------------------------------
    def call(self, req, run=None):
        run = run or Run()
        del self.conns[:]
        self.probe.cur = run
        try:
            resp = http.call(self.h.app, req)
        finally:
            self.probe.cur = None
        return resp, run

    def image_for(self, entry):
        key = repr(entry['setup']) + entry.get('restart', '')
        if key not in self.images:
            self.h.write_image(self.base)
            for req in entry['setup']:
                resp, _ = self.call(req)
                if resp.status >= 400:
                    raise HarnessError('setup failed: %s %s -> %s %s' % (
                        req['method'], req['path'], resp.status, resp.raw[:200]))
            if entry.get('restart') == 'partial':
                self._sql(["delete from traits where name in ('HW_CPU_X86_AVX2', "
                           "'STORAGE_DISK_SSD')",
                           "delete from resource_classes where name in ('PCI_DEVICE', 'FPGA')"])
            elif entry.get('restart') == 'empty':
                self._sql(['delete from traits', 'delete from resource_classes'])
            self.images[key] = self.h.read_image()
        return self.images[key]

    def _sql(self, stmts):
        c = sqlite3.connect(self.h.dbfile)
        for s in stmts:
            c.execute(s)
        c.commit()
        c.close()

    def execute(self, entry, run):
        """Run the corpus entry under `run`'s hooks -> (status, Resp or None, escaped exc)"""
        if 'restart' in entry:
            self.probe.cur = run
            try:
                self.h.restart()
                return 200, None, None
            except SimulatedCrash:
                raise
            except Exception as e:
                return 500, None, e
            finally:
                self.probe.cur = None
        resp, _ = self.call(entry['req'], run)
        return resp.status, resp, resp.escaped

    # -- E-fault ---------------------------------------------------------------------------
    def baseline(self, entry):
        if entry['name'] in self._baselines:
            return self._baselines[entry['name']]
        b = self._baseline(entry)
        self._baselines[entry['name']] = b
        return b

    def _baseline(self, entry):
        img = self.image_for(entry)
        self.h.write_image(img)
        pre = Dump(self.h.dbfile)
        run = Run()
        frames = []

        def rec(run_, k, sql, params, conn):
            frames.append(_retry_frame())
        run.on_stmt = rec
        status, resp, esc = self.execute(entry, run)
        post = Dump(self.h.dbfile)
        return {'pre': pre, 'post': post, 'status': status, 'stmts': list(run.stmts),
                'frames': frames, 'ntx': len(run.txns)}

    def fault_run(self, entry, faults):
        """faults: list of (k, kind) fired in order, each at global statement index k of THIS run"""
        img = self.image_for(entry)
        self.h.write_image(img)
        run = Run()
        pending = list(faults)
        fired = []
        self.after_race = None

        def hook(run_, k, sql, params, conn):
            if pending and pending[0][0] == k:
                kk, kind = pending.pop(0)
                if kind == 'dup-key':
                    # A duplicate-key error is only truthful when a racing creator has committed
                    # the row. Under snapshot isolation our transaction cannot see that row until
                    # it ends, so: report the error now, and let the racing row become visible
                    # when the current transaction is over (next top-level begin, or the end of
                    # the request).
                    if not self._racing_applicable(sql, params):
                        fired.append((k, kind, 'skipped'))
                        return
                    fired.append((k, kind, _retry_frame(), sql[:60]))
                    race = [(sql, params)]

                    def appear(run__):
                        if race:
                            self._racing_creator(*race.pop())
                        run__.on_begin = None
                    run_.on_begin = appear
                    self._race_pending = race
                    raise_fault(kind, conn, sql)
                fired.append((k, kind, _retry_frame(), sql[:60]))
                raise_fault(kind, conn, sql)
        run.on_stmt = hook
        self._race_pending = None
        try:
            status, resp, esc = self.execute(entry, run)
        except SimulatedCrash:
            raise HarnessError('crash escaped from a fault run')
        if self._race_pending:
            self._racing_creator(*self._race_pending.pop())
        post = Dump(self.h.dbfile)
        return {'status': status, 'resp': resp, 'post': post, 'nstmts': len(run.stmts),
                'stmts': run.stmts, 'fired': fired, 'escaped': esc, 'after_race': self.after_race}

    # -- E-crash ---------------------------------------------------------------------------
    def crash_run(self, entry, point):
        """point: ('before-stmt'|'after-stmt', k) or ('before-commit', j)"""
        img = self.image_for(entry)
        self.h.write_image(img)
        run = Run()
        kind, idx = point
        state = {'hit': False}
        if kind == 'after-last-commit':
            # the process dies once nothing more is sent to the database: every commit is durable
            self.execute(entry, run)
            self.drop_connections()
            shutil.copyfile(self.h.dbfile, self.side)
            d = Dump(self.h.dbfile)
            return {'status': 'crashed', 'unwound': d, 'recovered': Dump(self.side)}

        def die():
            state['hit'] = True
            run.dead = True
            self._copy_at_crash()
            raise SimulatedCrash()
        if kind == 'before-stmt':
            run.on_stmt = lambda r, k, sql, p, conn: die() if k == idx else None
        elif kind == 'after-stmt':
            run.on_after_stmt = lambda r, k, sql, conn: die() if k == idx else None
        else:
            run.on_commit = lambda r, j, phase, conn: die() if j == idx else None
        status = None
        try:
            status, resp, esc = self.execute(entry, run)
        except SimulatedCrash:
            status = 'crashed'
        finally:
            self.probe.cur = None
        self.drop_connections()
        if not state['hit']:
            return None
        unwound = Dump(self.h.dbfile)
        recovered = self._recover_copy()
        return {'status': status, 'unwound': unwound, 'recovered': recovered}

    # tables with a uniqueness constraint whose rows do not refer to rows the request itself
    # may have created earlier (the consumer creation race is C06's business, explored there
    # over all schedules)
    UNIQUE_TABLES = ('placement_aggregates', 'projects', 'users', 'consumer_types',
                     'traits', 'resource_classes', 'resource_providers', 'inventories',
                     'resource_provider_traits', 'resource_provider_aggregates')

    def _racing_applicable(self, sql, params):
        import re
        m = re.match(r'\s*INSERT INTO (\w+)', sql, re.I)
        if not m or m.group(1) not in self.UNIQUE_TABLES:
            return False
        if isinstance(params, (list, tuple)) and params and isinstance(params[0], (list, tuple,
                                                                                  dict)):
            return False      # executemany
        return True

    def _racing_creator(self, sql, params):
        side = sqlite3.connect(self.h.dbfile, timeout=0)
        try:
            side.execute(sql, params)
            side.commit()
            side.close()
            self.after_race = (sql, params)
            return True
        except (sqlite3.OperationalError, sqlite3.IntegrityError):
            # our own transaction holds the write lock (no racing writer can commit under the
            # atomic-transaction model), or the row exists already
            return False
        finally:
            side.close()

    def drop_connections(self):
        import gc
        left = 0
        for c in self.conns:
            try:
                c.execute('select 1')
                left += 1
            except Exception:
                pass
            try:
                c.close()
            except Exception:
                pass
        self.conns = []
        gc.collect()
        return left

    def _copy_at_crash(self):
        for suffix in ('', '-journal'):
            src, dst = self.h.dbfile + suffix, self.side + suffix
            if os.path.exists(dst):
                os.unlink(dst)
            if os.path.exists(src):
                shutil.copyfile(src, dst)

    def _recover_copy(self):
        # opening for writing makes SQLite play back a hot journal (real crash recovery)
        c = sqlite3.connect(self.side)
        c.execute('begin immediate')
        c.rollback()
        c.close()
        return Dump(self.side)

    # -- pool interface ----------------------------------------------------------------------
    def work(self, task):
        kind = task[0]
        entry = task[1]
        if kind == 'baseline':
            b = self.baseline(entry)
            return {'status': b['status'], 'nstmts': len(b['stmts']), 'ntx': b['ntx'],
                    'stmts': [s[0][:80] for s in b['stmts']], 'frames': b['frames'],
                    'changed': coreview(b['pre'], gens=True) != coreview(b['post'], gens=True)}
        if kind == 'fault':
            return judge_fault(self, entry, task[2])
        if kind == 'crash':
            return judge_crash(self, entry, task[2])
        raise HarnessError('unknown task')


class _NoSleepTime(object):
    def __getattr__(self, name):
        import time
        return getattr(time, name)

    def sleep(self, s):
        return None


def _retry_frame():
    f = sys._getframe(2)
    while f is not None:
        if f.f_code.co_name in RETRY_FUNCS:
            return f.f_code.co_name
        f = f.f_back
    return None


def raise_fault(kind, conn, sql):
    from oslo_db import exception as db_exc
    if kind == 'deadlock-stmt':
        raise db_exc.DBDeadlock()
    if kind == 'deadlock-txn':
        conn.connection.rollback()
        raise db_exc.DBDeadlock()
    if kind == 'dup-key':
        import re
        m = re.match(r'\s*INSERT INTO (\w+)', sql, re.I)
        table = m.group(1) if m else ''
        col = {'placement_aggregates': 'uuid', 'consumers': 'uuid', 'projects': 'external_id',
               'users': 'external_id', 'consumer_types': 'name', 'resource_classes': 'name',
               'traits': 'name', 'resource_providers': 'uuid'}.get(table, 'id')
        if table == 'resource_providers':
            raise db_exc.DBDuplicateEntry(columns=['uniq_resource_providers0uuid'])
        raise db_exc.DBDuplicateEntry(columns=[col])
    if kind == 'conn':
        raise db_exc.DBConnectionError()
    if kind == 'generic':
        raise db_exc.DBError()
    if kind == 'raw':
        raise sqlite3.OperationalError('disk I/O error')
    raise HarnessError('unknown fault kind %s' % kind)


# ---------------------------------------------------------------------------------------------
# oracles
# ---------------------------------------------------------------------------------------------

def wellformed_error(resp):
    if resp is None:
        return True
    j = resp.json
    try:
        e = j['errors'][0]
        return e['status'] == resp.status and bool(e['title']) and 'detail' in e and \
            bool(e.get('request_id'))
    except Exception:
        return False


def judge_fault(w, entry, faults):
    """Run entry with the given faults; return dict(outcome, viol[(sig, msg)])."""
    b = w.baseline(entry)
    r = w.fault_run(entry, faults)
    viol = []
    name = entry['name']
    fired = [f for f in r['fired'] if f[2] != 'skipped']
    if not fired:
        return {'outcome': 'not-applicable', 'viol': [], 'fired': r['fired']}
    kinds = '+'.join(f[1] for f in fired)
    # a fault that was retried successfully is not the cause of what follows: the signature
    # names the last fault, marked when it struck after a retry
    where = ('after-retry:' if len(fired) > 1 else '') + '%s@%s' % (
        fired[-1][1], fired[-1][2] or 'elsewhere')
    stmt = fired[0][3]
    pre, post0, post = b['pre'], b['post'], r['post']
    if r.get('after_race') is not None:
        # the row a racing creator committed is that request's effect, not this one's: the
        # reference "before" state is the start state plus that one row
        w.h.write_image(w.image_for(entry))
        side = sqlite3.connect(w.h.dbfile)
        side.execute(*r['after_race'])
        side.commit()
        side.close()
        pre = Dump(w.h.dbfile)

    def tables(a, bb):
        return '+'.join(sorted(x.split(':')[0] for x in diff(a, bb, gens=True)
                               if not x.startswith('n_'))) or 'none'
    sigbase = '%s|%s' % (name, where)
    # A DBMS-side rollback of the whole transaction (InnoDB deadlock victim) that strikes inside
    # the retry-wrapped _set_allocations desynchronises the enclosing transaction: every symptom
    # of that run (lost consumer update, partial commit, missing retry) has this one root cause
    # and is reported under one signature per corpus entry.
    rooted = any(f[1] == 'deadlock-txn' and f[2] == '_set_allocations' for f in fired)
    status = r['status']
    if r['escaped'] is not None and 'restart' not in entry:
        viol.append(('c17-escaped:%s' % sigbase, '%s: fault %s made an exception escape the '
                     'pipeline: %r' % (name, fired, r['escaped'])))
    ok = status is not None and status < 300
    if ok:
        outcome = 'success'
        # effect exactly once: same rows as the fault-free run; generations may be larger but
        # must have moved exactly where the fault-free run moved them
        if coreview(post) != coreview(post0):
            viol.append(('c17-effect:%s|%s' % (sigbase, tables(post0, post)),
                         '%s answered %s under %s but the stored state differs from the '
                         'fault-free run: %s' % (name, status, fired,
                                                 diff(post0, post, gens=False))))
        else:
            g0p, g0c = pre.gens()
            g1p, g1c = post0.gens()
            g2p, g2c = post.gens()
            for u in g2p:
                moved0 = g1p.get(u) != g0p.get(u)
                moved = g2p.get(u) != g0p.get(u)
                if moved != moved0 or (u in g1p and g2p[u] < g1p[u]):
                    viol.append(('c17-generation:%s' % sigbase,
                                 '%s under %s: generation of %s %s->%s, fault-free %s->%s' % (
                                     name, fired, u, g0p.get(u), g2p.get(u), g0p.get(u),
                                     g1p.get(u))))
            for c_ in g2c:
                moved0 = g1c.get(c_) != g0c.get(c_)
                moved = g2c.get(c_) != g0c.get(c_)
                if moved != moved0:
                    viol.append(('c17-consumer-generation:%s' % sigbase,
                                 '%s under %s: consumer generation of %s %s->%s, fault-free '
                                 '%s->%s' % (name, fired, c_, g0c.get(c_), g2c.get(c_),
                                             g0c.get(c_), g1c.get(c_))))
        if b['status'] >= 300:
            viol.append(('c17-succeeded-where-baseline-fails:%s' % sigbase,
                         '%s is rejected fault-free (%s) but answered %s under %s' % (
                             name, b['status'], status, fired)))
    else:
        outcome = 'error'
        if 'restart' not in entry and not wellformed_error(r['resp']):
            viol.append(('c17-malformed-error:%s' % sigbase,
                         '%s under %s: error response is not a well-formed JSON error: %s %r' % (
                             name, fired, status, r['resp'].raw[:200] if r['resp'] else None)))
        same_as_pre = coreview(post, gens=True) == coreview(pre, gens=True)
        if not same_as_pre:
            if 'restart' in entry:
                pass      # start-up sync is re-run by the next start; judged by the re-run below
            else:
                viol.append(('c17-trace:%s|%s' % (sigbase, tables(pre, post)),
                             '%s answered %s under %s but left a trace: %s' % (
                                 name, status, fired, diff(pre, post, gens=True))))
        if b['status'] < 300 and b['status'] != status:
            outcome = 'clean-failure'
        elif b['status'] >= 300 and status != b['status']:
            outcome = 'other-error'
    # retry obligations
    retry_fn = fired[-1][2]
    retry_kind = fired[-1][1]
    stmt = fired[-1][3]
    must_retry = (
        (retry_kind in ('deadlock-stmt', 'deadlock-txn') and retry_fn in (
            '_set_allocations', '_trait_sync', '_resource_classes_sync')) or
        (retry_kind == 'dup-key' and retry_fn == '_set_aggregates' and
         'placement_aggregates' in stmt))
    if must_retry and b['status'] < 300:
        if not ok:
            viol.append(('c17-not-retried:%s' % sigbase,
                         '%s: a %s inside %s must be retried, but the operation answered %s' % (
                             name, retry_kind, retry_fn, status)))
        elif r['nstmts'] <= len(b['stmts']):
            viol.append(('c17-no-reexecution:%s' % sigbase,
                         '%s: %s inside %s: no statement was re-executed (%d vs %d)' % (
                             name, retry_kind, retry_fn, r['nstmts'], len(b['stmts']))))
    if 'restart' in entry and not ok:
        # a failed start-up sync must be repairable by the next start: first by a reload inside
        # the same process (flags as the failed attempt left them), then by a new process
        w.probe.cur = None
        from vp.snapshot import STD_CLASSES, STD_TRAITS
        try:
            w.h.resync()
            d1 = Dump(w.h.dbfile)
            if STD_TRAITS - d1.traits or any(d1.classes.get(n) != i for i, n in
                                             enumerate(STD_CLASSES)):
                viol.append(('c17-reload-incomplete:%s' % sigbase, 'after a failed start-up '
                             'sync, running the start-up sync again in the same process leaves '
                             'standard traits/classes missing or misnumbered'))
        except Exception as e:
            viol.append(('c17-reload-stuck:%s' % sigbase, 'start-up sync re-run in the same '
                         'process after a failed sync raised %r' % e))
        try:
            w.h.restart()
        except Exception as e:
            viol.append(('c17-restart-stuck:%s' % sigbase, 'restart after a failed sync raised '
                         '%r' % e))
        d2 = Dump(w.h.dbfile)
        from vp.snapshot import STD_CLASSES, STD_TRAITS
        if STD_TRAITS - d2.traits or any(d2.classes.get(n) != i for i, n in
                                         enumerate(STD_CLASSES)):
            viol.append(('c17-restart-incomplete:%s' % sigbase, 'after a failed sync and a second '
                         'start, standard traits/classes are still missing or misnumbered'))
    if rooted and viol:
        viol = [('c17-dbms-rollback-inside-retry:%s' % name,
                 '%s (%d symptom(s) in this run: %s)' % (viol[0][1], len(viol),
                                                         sorted({v[0].split(':')[0] for v in viol})))]
    return {'outcome': outcome, 'status': status, 'viol': viol, 'fired': [list(f) for f in fired],
            'reexecuted': max(0, r['nstmts'] - len(b['stmts'])), 'retry_fn': retry_fn,
            'nstmts_faulted': r['nstmts']}


def judge_crash(w, entry, point):
    b = w.baseline(entry)
    r = w.crash_run(entry, point)
    if r is None:
        return {'outcome': 'not-reached', 'viol': []}
    viol = []
    name = entry['name']
    pre, post0 = b['pre'], b['post']
    sigbase = '%s|%s' % (name, point[0])
    un, rec = r['unwound'], r['recovered']
    if coreview(un, gens=True) != coreview(rec, gens=True) or un.core(aux=True) != rec.core(
            aux=True):
        raise HarnessError('survivor by journal recovery and by unwinding differ at %s %s: %s' % (
            name, point, diff(rec, un, gens=True, aux=True)))
    d = rec
    for m in inv_ref(d):
        viol.append(('c18-ref:%s' % sigbase, '%s crashed %s: %s' % (name, point, m)))
    for m in inv_forest(d):
        viol.append(('c18-forest:%s' % sigbase, '%s crashed %s: %s' % (name, point, m)))
    oc0, oc1 = overcommitted(pre), overcommitted(d)
    for k in oc1:
        if k not in oc0 and k not in overcommitted(post0):
            viol.append(('c18-capacity:%s' % sigbase, '%s crashed %s: %s/%s over-committed %s' % (
                name, point, k[0], k[1], oc1[k])))
    cv = coreview(d, gens=True, consumers=False)
    is_pre = cv == coreview(pre, gens=True, consumers=False)
    is_post = cv == coreview(post0, gens=True, consumers=False)
    if not (is_pre or is_post):
        viol.append(('c18-partial:%s' % sigbase,
                     '%s crashed %s: survivor is neither the state before the request nor the '
                     'complete effect: vs before %s; vs complete %s' % (
                         name, point, diff(pre, d, gens=True), diff(post0, d, gens=True))))
    # consumers: equal to pre or post, or additionally consumers without allocations
    holders = {a[0] for a in d.alloc_rows}
    ref = post0 if is_post and not is_pre else pre
    for u, c in d.consumers.items():
        if u in holders:
            if ref.consumers.get(u) != c and pre.consumers.get(u) != c and \
                    post0.consumers.get(u) != c:
                viol.append(('c18-consumer:%s' % sigbase, '%s crashed %s: consumer %s is %s' % (
                    name, point, u, c)))
    for u in ref.consumers:
        if u not in d.consumers:
            viol.append(('c18-consumer-lost:%s' % sigbase, '%s crashed %s: consumer %s lost' % (
                name, point, u)))
    surv = 'pre' if is_pre else 'post' if is_post else 'other'
    extra = sorted(set(d.consumers) - holders)
    return {'outcome': surv, 'viol': viol, 'survivor_key': d.key(gens=True, aux=True),
            'stray_consumers': extra,
            'aux_new': sorted((d.projects - pre.projects) | (d.users - pre.users) |
                              (d.types - pre.types))}


def make_worker(base_image):
    return FaultWorker(base_image)
