"""Scope enumerator: a finite, deterministic, deduplicated family of database states.

Used by the query checks (C13 provider filters; C02 / C03 / C20 allocation candidates).  The family
is "six base topologies x every set of <= k decoration deltas" (DESIGN.md section 3.5): the first
counterexample of a filter / candidate bug has few deviations from a plain state, so deviations
are bounded, not size.

A state is a *description* -- a plain JSON-able dict, no uuids computed at run time, no randomness:

    {'base': 'flat', 'deltas': [<delta>, ...],          # provenance (what was decorated)
     'providers': [                                     # in creation order, parents first
        {'i': 1,                                        # provider vp.names.P(1), name 'rp1'
         'parent': None | j,                            # index of the parent provider
         'inv': {rc: {total, reserved, min_unit, max_unit, step_size, allocation_ratio}},
         'used': {rc: amount},                          # held by the filler consumer K(1)
         'traits': [name, ...], 'aggs': [uuid, ...]}, ...]}

`compile_state(desc)` turns a description into the list of API requests (vp.reqs builders, all at
microversion 1.39) that produce it on an empty database; every request must answer < 400
(EnumWorker.build enforces that).  Nothing here computes what a query should return: the oracles
read the real rows back with vp.snapshot.Dump.

    for name, desc, reqs in states(k): ...       # k = max number of decoration deltas (0, 1, 2)

Deltas (the menu is per provider of the base):
    ('inv', i, rc, variant)    inventory of class rc on provider i replaced by a variant:
                               'absent' | 'one' | 'unit2' | 'reserved' | 'frac'  (INV_VARIANTS)
    ('use', i, rc, amount)     filler consumer K(1) holds 1 | 2 | 'all' (= floor(capacity) of the
                               final inventory) of class rc on provider i
    ('trait', i, name)         toggle a trait of TOGGLE_TRAITS on provider i
    ('agg', i, uuid)           toggle membership of provider i in an aggregate of AGGS

Usage is *arbitrary*, not only what a client could have claimed under the final inventory: the
filler allocation is written while the class has a permissive scratch inventory and the final
inventory is put afterwards (placement accepts an inventory change that leaves usage above
capacity or off the unit grid).  A set of deltas is dropped when it is contradictory (two
inventory variants / two usages of one (provider, class)), infeasible through the API (usage on a
class whose final inventory is absent: DELETE would be refused) or a no-op ('absent' on an absent
class, 'all' of capacity 0); descriptions equal after resolution are yielded once.
"""
import copy
import itertools
import json

from vp import reqs
from vp.names import A, K, P, SHARING

MV = '1.39'
CLASSES = ('VCPU', 'DISK_GB', 'SRIOV_NET_VF', 'CUSTOM_X')
CUSTOM_CLASSES = ('CUSTOM_X',)
T_A = 'HW_CPU_X86_AVX'
T_B = 'CUSTOM_T_B'
T_C = 'CUSTOM_T_C'
TRAITS = (T_A, T_B, T_C, SHARING)          # the four traits of the scope
CUSTOM_TRAITS = (T_B, T_C)                 # created in every state (also when no provider has them)
TOGGLE_TRAITS = (T_A, T_B, SHARING)
# the third aggregate is spelled in upper case: aggregate uuids are stored as the client wrote
# them, so filters naming them must treat the value as opaque
AGGS = (A(1), A(2), A(3).upper())
FILLER = K(1)
INV_FIELDS = ('total', 'reserved', 'min_unit', 'max_unit', 'step_size', 'allocation_ratio')


def inv(total, reserved=0, min_unit=1, max_unit=16, step_size=1, allocation_ratio=1.0):
    return {'total': total, 'reserved': reserved, 'min_unit': min_unit, 'max_unit': max_unit,
            'step_size': step_size, 'allocation_ratio': allocation_ratio}


def base_inv(rc, total=None):
    """Baseline inventory of a class.  One template per class, chosen so that small amounts
    (1..9) hit every single constraint in isolation somewhere in the scope:
      VCPU          capacity = total (4 / 8 / 16): amount = total sits exactly on the boundary,
                    max_unit 16, so 9 exceeds the capacity of the smaller ones and nothing else
      DISK_GB       cap 10, min 2, max 5, step 3: 2,4,5 break step only; 9 breaks max only
      SRIOV_NET_VF  cap 4, min 2: 1 breaks min only
      CUSTOM_X      total 3 reserved 1 ratio 2.0 -> cap 4: 4 fits exactly, 5 exceeds capacity only
    """
    if rc == 'VCPU':
        return inv(total or 8)
    if rc == 'DISK_GB':
        return inv(total or 12, reserved=2, min_unit=2, max_unit=5, step_size=3)
    if rc == 'SRIOV_NET_VF':
        return inv(total or 4, min_unit=2, max_unit=4)
    if rc == 'CUSTOM_X':
        return inv(total or 3, reserved=1, allocation_ratio=2.0)
    raise ValueError(rc)


# decoration: inventory variants (None = no inventory of that class)
INV_VARIANTS = (
    ('absent', None),
    ('one', inv(1, max_unit=1)),
    ('unit2', inv(4, min_unit=2, max_unit=2, step_size=2)),
    ('reserved', inv(4, reserved=4, max_unit=4)),          # reserved == total: allowed since 1.26
    ('frac', inv(7, allocation_ratio=0.5)),                # capacity 3.5: 3 fits, 4 does not (and
    #                                                        3.5 rounds UP under round() and ceil)
)
USE_AMOUNTS = (1, 2, 'all')
PERMISSIVE = inv(1000, max_unit=1000)      # scratch inventory while the filler usage is written


def _p(i, parent=None, inv_=None, traits=(), aggs=()):
    invs = {}
    for rc, total in (inv_ or {}).items():
        invs[rc] = base_inv(rc, total)
    return {'i': i, 'parent': parent, 'inv': invs, 'used': {}, 'traits': sorted(traits),
            'aggs': sorted(aggs)}


def bases():
    """The six base topologies, in a fixed order: [(name, [provider descriptions])]."""
    a1, a2, a3 = AGGS
    return [
        # three unrelated root providers
        ('flat', [
            _p(1, None, {'VCPU': 8, 'DISK_GB': 12}, [T_A], [a1]),
            _p(2, None, {'VCPU': 4, 'CUSTOM_X': 3}, [T_B, T_C], [a2, a3]),
            _p(3, None, {'DISK_GB': 12, 'SRIOV_NET_VF': 4}, [], []),
        ]),
        # a root with two children, and a lone root
        ('nested2', [
            _p(1, None, {'VCPU': 8, 'DISK_GB': 12}, [T_A], [a1]),
            _p(2, 1, {'SRIOV_NET_VF': 4}, [T_B], []),
            _p(3, 1, {'CUSTOM_X': 3, 'VCPU': 4}, [T_A, T_B], [a2]),
            _p(4, None, {'VCPU': 16}, [], [a1, a2]),
        ]),
        # a chain of depth 3 and a tree of depth 2
        ('nested3', [
            _p(1, None, {'DISK_GB': 12}, [], [a1]),
            _p(2, 1, {'VCPU': 8}, [T_A], []),
            _p(3, 2, {'SRIOV_NET_VF': 4}, [T_A, T_B], [a2]),
            _p(4, None, {'VCPU': 16, 'DISK_GB': 12}, [T_B], [a1, a3]),
            _p(5, 4, {'CUSTOM_X': 3}, [], []),
        ]),
        # a sharing root provider and two compute roots in one aggregate
        ('sharing', [
            _p(1, None, {'DISK_GB': 12}, [SHARING, T_C], [a1]),
            _p(2, None, {'VCPU': 8}, [T_A], [a1]),
            _p(3, None, {'VCPU': 16}, [T_A, T_B], [a1, a2]),
        ]),
        # nested compute tree whose *child* is the aggregate member + a sharing root + another tree
        ('nested_sharing', [
            _p(1, None, {'VCPU': 8}, [T_A], []),
            _p(2, 1, {'SRIOV_NET_VF': 4}, [T_B], [a1]),
            _p(3, None, {'DISK_GB': 12}, [SHARING], [a1]),
            _p(4, None, {'VCPU': 16, 'DISK_GB': 12}, [], [a2]),
            _p(5, 4, {'CUSTOM_X': 3}, [T_A], []),
        ]),
        # a *child* provider carries the sharing trait; 7 providers, 3 trees, depth 3
        ('sharing_child', [
            _p(1, None, {'VCPU': 8}, [T_A], [a2]),
            _p(2, 1, {'DISK_GB': 12}, [SHARING, T_C], [a1]),
            _p(3, None, {'VCPU': 4}, [T_B], [a1]),
            _p(4, 3, {'SRIOV_NET_VF': 4}, [], []),
            _p(5, 4, {'CUSTOM_X': 3}, [T_A, T_B], [a3]),
            _p(6, None, {'VCPU': 16, 'DISK_GB': 12}, [], [a1, a2]),
            _p(7, 6, {'SRIOV_NET_VF': 4}, [T_A], []),
        ]),
    ]


def capacity(i):
    """(total - reserved) * allocation_ratio in IEEE double arithmetic."""
    return (i['total'] - i['reserved']) * float(i['allocation_ratio'])


def menu(providers):
    """All decoration deltas of a base, in a fixed order."""
    out = []
    for p in providers:
        i = p['i']
        for rc in CLASSES:
            for vname, _ in INV_VARIANTS:
                out.append(('inv', i, rc, vname))
        for rc in CLASSES:
            for amt in USE_AMOUNTS:
                out.append(('use', i, rc, amt))
        for t in TOGGLE_TRAITS:
            out.append(('trait', i, t))
        for a in AGGS:
            out.append(('agg', i, a))
    return out


def delta_label(d):
    if d[0] in ('inv', 'use'):
        return '%s:rp%d:%s:%s' % d
    if d[0] == 'agg':
        return 'agg:rp%d:A%d' % (d[1], AGGS.index(d[2]) + 1)
    return 'trait:rp%d:%s' % (d[1], d[2])


def apply_deltas(base_name, providers, deltas):
    """-> description, or None when the set is contradictory / infeasible / contains a no-op."""
    provs = copy.deepcopy(providers)
    by_i = {p['i']: p for p in provs}
    variants = dict(INV_VARIANTS)
    touched = set()
    for d in deltas:                       # inventories first: 'all' refers to the final inventory
        if d[0] != 'inv':
            continue
        _, i, rc, vname = d
        if ('inv', i, rc) in touched:
            return None
        touched.add(('inv', i, rc))
        p = by_i[i]
        v = variants[vname]
        if v is None:
            if rc not in p['inv']:
                return None                # no-op
            del p['inv'][rc]
        else:
            if p['inv'].get(rc) == v:
                return None
            p['inv'][rc] = dict(v)
    for d in deltas:
        if d[0] == 'use':
            _, i, rc, amt = d
            if ('use', i, rc) in touched:
                return None
            touched.add(('use', i, rc))
            p = by_i[i]
            if rc not in p['inv']:
                return None                # an allocation needs an inventory (and DELETE refuses)
            if amt == 'all':
                amt = int(capacity(p['inv'][rc]))
            if amt <= 0:
                return None
            p['used'][rc] = amt
        elif d[0] == 'trait':
            _, i, t = d
            s = set(by_i[i]['traits'])
            s ^= {t}
            by_i[i]['traits'] = sorted(s)
        elif d[0] == 'agg':
            _, i, a = d
            s = set(by_i[i]['aggs'])
            s ^= {a}
            by_i[i]['aggs'] = sorted(s)
    return {'base': base_name, 'deltas': [list(d) for d in deltas], 'providers': provs}


def desc_key(desc):
    return json.dumps(desc['providers'], sort_keys=True)


def compile_state(desc, mv=MV):
    """Description -> setup requests (run on the base image; every one must succeed)."""
    out = []
    for t in CUSTOM_TRAITS:
        out.append(reqs.put_trait(t, mv=mv))
    for rc in CUSTOM_CLASSES:
        out.append(reqs.put_class(rc, mv=mv))
    gen = {}
    provs = desc['providers']
    for p in provs:
        parent = P(p['parent']) if p['parent'] is not None else None
        out.append(reqs.mk_rp(p['i'], parent=parent, mv=mv))
        gen[p['i']] = 0
    # filler usage, written under a permissive scratch inventory
    allocs = {}
    for p in provs:
        if p['used']:
            out.append(reqs.put_invs(P(p['i']), gen[p['i']],
                                     {rc: dict(PERMISSIVE) for rc in sorted(p['used'])}, mv=mv))
            gen[p['i']] += 1
            allocs[P(p['i'])] = {rc: p['used'][rc] for rc in sorted(p['used'])}
    if allocs:
        out.append(reqs.put_alloc(FILLER, allocs, mv=mv))
        for p in provs:
            if p['used']:
                gen[p['i']] += 1
    for p in provs:
        if p['inv'] or p['used']:
            out.append(reqs.put_invs(P(p['i']), gen[p['i']],
                                     {rc: dict(p['inv'][rc]) for rc in sorted(p['inv'])}, mv=mv))
            gen[p['i']] += 1
    for p in provs:
        if p['traits']:
            out.append(reqs.put_traits(P(p['i']), gen[p['i']], p['traits'], mv=mv))
            gen[p['i']] += 1
    for p in provs:
        if p['aggs']:
            out.append(reqs.put_aggs(P(p['i']), gen[p['i']], p['aggs'], mv=mv))
            gen[p['i']] += 1
    return out


def delta_sets(providers, k, same_provider_pairs=False):
    """Every set of <= k deltas of the base's menu, smallest first, in menu order.

    same_provider_pairs=True restricts the *pairs* to: both deltas on one provider, or both
    deltas trait / aggregate toggles (on any providers) -- a complete, well-defined sub-space for
    consumers that cannot afford all pairs."""
    m = menu(providers)
    yield ()
    if k >= 1:
        for d in m:
            yield (d,)
    for n in range(2, k + 1):
        for ds in itertools.combinations(m, n):
            if same_provider_pairs:
                same = len({d[1] for d in ds}) == 1
                toggles = all(d[0] in ('trait', 'agg') for d in ds)
                if not (same or toggles):
                    continue
            yield ds


def states(k=1, same_provider_pairs=False, only_bases=None):
    """Yield (name, description, setup_requests) for every base x every set of <= k deltas.

    Deterministic (fixed iteration order, no randomness) and deduplicated (a description that
    resolves to the same providers / inventories / usage / traits / aggregates as an earlier one
    is skipped)."""
    seen = set()
    for bname, providers in bases():
        if only_bases is not None and bname not in only_bases:
            continue
        for ds in delta_sets(providers, k, same_provider_pairs):
            desc = apply_deltas(bname, providers, ds)
            if desc is None:
                continue
            key = (bname, desc_key(desc))
            if key in seen:
                continue
            seen.add(key)
            name = bname + ''.join('+' + delta_label(d) for d in ds)
            yield name, desc, compile_state(desc)


def shape(desc):
    """Small helpers consumers need: {'roots': [...], 'children': [...], 'root_of': {i: root}}."""
    by_i = {p['i']: p for p in desc['providers']}
    root_of = {}
    for p in desc['providers']:
        cur = p
        while cur['parent'] is not None:
            cur = by_i[cur['parent']]
        root_of[p['i']] = cur['i']
    return {'roots': [p['i'] for p in desc['providers'] if p['parent'] is None],
            'children': [p['i'] for p in desc['providers'] if p['parent'] is not None],
            'root_of': root_of}
