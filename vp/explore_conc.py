"""E-conc: all schedules of 2-3 concurrent requests at top-level-transaction granularity.

Each request runs in its own greenlet on the real WSGI pipeline. The SQLAlchemy `begin` hook
switches to the scheduler whenever a request is about to open a *top-level* transaction; the
scheduler decides which request runs its next transaction (plus the Python code that follows it,
up to its next top-level begin). Every top-level transaction is therefore atomic and isolated.

Exploration is stateless DFS over choice sequences (executions are replayed from the restored
start image) with state matching. The key of a global state is

   (digest of every table,
    per request: finished ? (status, body digest)
                          : tuple of per-transaction observation digests so far)

where the observation digest of a transaction is the digest, at its begin, of exactly the tables
it read (SQLite authorizer) plus its write-set and outcome. A request is deterministic given its
input and what its transactions read, so two schedule prefixes with equal keys have identical
futures; adjacent independent transactions reach the same key in either order (the effect of
partial-order reduction). Replaying a prefix must reproduce the recorded keys: any divergence is a
hard harness error.
"""
import hashlib
import os
import itertools
import sqlite3

import greenlet

from vp import http
from vp.boot import Harness
from vp.check import HarnessError
from vp.probe import Probe, Run
from vp.snapshot import Dump

TABLES = ('resource_providers', 'inventories', 'allocations', 'consumers', 'projects', 'users',
          'consumer_types', 'resource_provider_traits', 'resource_provider_aggregates',
          'placement_aggregates', 'traits', 'resource_classes')


def _h(x):
    return hashlib.blake2b(repr(x).encode(), digest_size=8).hexdigest()


class Abort(Exception):
    pass


class Execution(object):
    """One run of the scenario's requests under a given choice prefix."""

    def __init__(self, eng, requests, prefix):
        self.eng = eng
        self.requests = requests
        self.prefix = prefix
        self.n = len(requests)
        self.runs = [Run(i) for i in range(self.n)]
        self.resps = [None] * self.n
        self.glets = [None] * self.n
        self.obs = [[] for _ in range(self.n)]       # observation digests per request
        self.txn_info = [[] for _ in range(self.n)]  # per txn: dict(pgens, cgens, writes, outcome)
        self.choices = []
        self.keys = []
        self.enabled_at = []
        self.preempt = []                            # cumulative preemptions before step i
        self.tabdig = {}
        self.dirty = set()        # tables written by a commit whose digest is not refreshed yet
        self.begin_dig = [None] * self.n
        self.begin_gens = [None] * self.n
        self.main = greenlet.getcurrent()

    # -- table digests -------------------------------------------------------------------
    def _digest_tables(self, tables):
        c = sqlite3.connect('file:%s?mode=ro' % self.eng.h.dbfile, uri=True)
        try:
            for t in tables:
                cols = self.eng.cols[t]
                rows = c.execute('select %s from %s order by 1, 2' % (cols, t)).fetchall()
                self.tabdig[t] = _h(rows)
        finally:
            c.close()

    def _refresh(self):
        # SQLAlchemy's 'commit' event fires BEFORE the DB-API commit, so the tables a transaction
        # wrote are only marked there and re-read here, at the next point where the scheduler or a
        # beginning transaction looks at the database (the commit has completed by then).
        if self.dirty:
            d, self.dirty = self.dirty, set()
            self._digest_tables(sorted(d))

    def _gens(self):
        c = sqlite3.connect('file:%s?mode=ro' % self.eng.h.dbfile, uri=True)
        try:
            pg = dict(c.execute('select uuid, generation from resource_providers').fetchall())
            rows = c.execute('select uuid, generation, id from consumers').fetchall()
            cg = {r[0]: r[1] for r in rows}
            ci = {r[0]: r[2] for r in rows}
        finally:
            c.close()
        return pg, cg, ci

    # -- hooks ---------------------------------------------------------------------------
    def _on_begin(self, run):
        # called inside request greenlet `run.name`, about to open a top-level transaction
        i = run.name
        self.eng.probe.cur = None
        self.main.switch(('begin', i))
        # resumed by the scheduler: this request runs its next transaction now
        self.eng.probe.cur = run
        self._refresh()
        self.begin_dig[i] = dict(self.tabdig)
        self.begin_gens[i] = self._gens()

    def _on_end_txn(self, run, txn):
        i = run.name
        if txn.outcome == 'commit' and txn.writes:
            self.dirty |= {t for t in txn.writes if t in self.eng.cols}
        bd = self.begin_dig[i] or self.tabdig
        o = _h((sorted((t, bd.get(t)) for t in txn.reads if t in self.eng.cols),
                sorted(txn.writes), txn.outcome))
        self.obs[i].append(o)
        pg, cg, ci = self.begin_gens[i] or ({}, {}, {})
        self.nseq = getattr(self, 'nseq', 0) + 1
        self.txn_info[i].append({'seq': self.nseq, 'pgens': pg, 'cgens': cg, 'cids': ci,
                                 'writes': sorted(txn.writes), 'reads': sorted(txn.reads),
                                 'outcome': txn.outcome, 'nested': txn.nested,
                                 'nstmts': len(txn.stmts)})

    def _body(self, i):
        def f():
            run = self.runs[i]
            self.eng.probe.cur = run
            try:
                self.resps[i] = http.call(self.eng.h.app, self.requests[i])
            finally:
                self.eng.probe.cur = None
            return ('done', i)
        return f

    # -- driving -------------------------------------------------------------------------
    def _resume(self, i):
        g = self.glets[i]
        self.eng.probe.cur = None
        msg = g.switch()
        self.eng.probe.cur = None
        if g.dead:
            return ('done', i)
        return msg

    def key(self):
        self._refresh()
        per = []
        for i in range(self.n):
            if self.resps[i] is not None:
                r = self.resps[i]
                per.append(('F', r.status, _h(_mask(r.raw))))
            else:
                per.append(('R', tuple(self.obs[i])))
        return _h((sorted(self.tabdig.items()), per))

    def enabled(self):
        return [i for i in range(self.n) if self.resps[i] is None]

    def start(self):
        self.tabdig = dict(self.eng.start_digests)
        for i in range(self.n):
            run = self.runs[i]
            run.on_begin = self._on_begin
            run.on_end_txn = self._on_end_txn
            self.glets[i] = greenlet.greenlet(self._body(i))
            self._resume(i)       # runs up to the first top-level begin (no database access)

    def step(self, i):
        self.choices.append(i)
        self._resume(i)

    def kill(self):
        for i, g in enumerate(self.glets):
            if g is not None and not g.dead:
                self.runs[i].on_begin = None
                self.runs[i].on_end_txn = None
                self.runs[i].dead = True
                self.eng.probe.cur = None
                try:
                    g.throw(greenlet.GreenletExit)
                except BaseException:
                    pass
        self.eng.probe.cur = None


def _mask(raw):
    import re
    if not raw:
        return b''
    return re.sub(rb'req-[0-9a-f-]{36}', b'req-X', raw)


class Engine(object):
    def __init__(self, base_image, conf=None, fk=True):
        self.h = Harness(image=base_image, conf_overrides=conf, fk=fk)
        self.base = base_image
        self.probe = Probe(self.h, authorizer=True)
        self.cols = {}
        c = sqlite3.connect('file:%s?mode=ro' % self.h.dbfile, uri=True)
        for t in TABLES:
            names = [r[1] for r in c.execute('pragma table_info(%s)' % t).fetchall()
                     if r[1] not in ('created_at', 'updated_at')]
            self.cols[t] = ', '.join(names)
        c.close()
        self.start_digests = {}

    # -- plain sequential execution (setup, serial reference runs) --------------------------
    def call(self, req):
        run = Run()
        self.probe.cur = run
        try:
            resp = http.call(self.h.app, req)
        finally:
            self.probe.cur = None
        return resp, run

    def build(self, setup):
        self.h.write_image(self.base)
        for req in setup:
            resp, _ = self.call(req)
            if resp.status >= 400:
                raise HarnessError('setup request failed: %s %s -> %s %s' % (
                    req['method'], req['path'], resp.status, resp.raw[:300]))
        return self.h.read_image()

    def serial(self, image, requests, order):
        self.h.write_image(image)
        st = []
        for i in order:
            resp, _ = self.call(requests[i])
            st.append(resp.status)
        return st, Dump(self.h.dbfile)

    # -- exploration ----------------------------------------------------------------------
    def explore(self, image, requests, bound=None, max_exec=20000, leaf=None):
        """Explore all schedules (up to `bound` preemptions if given). leaf(ex, dump) is called
        for every distinct complete schedule class; returns stats."""
        self.h.write_image(image)
        ex0 = Execution(self, requests, ())
        ex0._digest_tables(TABLES)
        self.start_digests = dict(ex0.tabdig)
        visited = {}          # key -> min preemptions with which it was reached
        stack = [((), ())]    # (choice prefix, expected keys along the prefix)
        stats = {'executions': 0, 'states': 0, 'leaves': 0, 'steps': 0, 'pruned': 0,
                 'max_preemptions': 0, 'capped': False, 'outcomes': {}}
        while stack:
            prefix, expect = stack.pop()
            if stats['executions'] >= max_exec:
                stats['capped'] = True
                break
            stats['executions'] += 1
            self.h.write_image(image)
            ex = Execution(self, requests, prefix)
            ex.start()
            last = None
            cost = 0
            pruned = False
            p = len(prefix)
            try:
                step = 0
                while True:
                    en = ex.enabled()
                    if not en:
                        break
                    # canonical order: the request that just ran first, then ascending ids
                    order = ([last] if last in en else []) + [i for i in en if i != last]
                    if step < p:
                        choice = prefix[step]
                        if choice not in en:
                            raise HarnessError('replay divergence: request %d not enabled at '
                                               'step %d of %r' % (choice, step, prefix))
                    else:
                        choice = order[0]
                        for alt in order[1:]:
                            c2 = cost + (1 if last in en and alt != last else 0)
                            if bound is not None and c2 > bound:
                                stats['bound_skipped'] = stats.get('bound_skipped', 0) + 1
                                continue
                            stack.append((tuple(ex.choices) + (alt,), tuple(ex.keys)))
                    if last in en and choice != last:
                        cost += 1
                    ex.step(choice)
                    stats['steps'] += 1
                    last = choice
                    k = ex.key()
                    ex.keys.append(k)
                    if step < p - 1:
                        if expect[step] != k:
                            raise HarnessError(
                                'replay divergence at step %d of schedule %r: the same choices '
                                'produced a different state' % (step, prefix))
                    else:
                        prev = visited.get(k)
                        if prev is not None and (bound is None or prev <= cost):
                            stats['pruned'] += 1
                            pruned = True
                            if os.environ.get('VP_TRACE'):
                                print('pruned', ex.choices, 'matches', self._dbg.get(k))
                            break
                        visited[k] = cost
                        if os.environ.get('VP_TRACE'):
                            self._dbg = getattr(self, '_dbg', {})
                            self._dbg[k] = list(ex.choices)
                    step += 1
            finally:
                if ex.enabled():
                    ex.kill()
            # an execution cut by state matching at its very last step has still run to the end:
            # judge it too (rules on the transactions' own observations are not part of the key of
            # a finished request)
            complete = not pruned or not ex.enabled()
            stats['max_preemptions'] = max(stats['max_preemptions'], cost)
            if complete and not ex.enabled():
                stats['leaves'] += 1
                d = Dump(self.h.dbfile)
                vec = tuple(r.status for r in ex.resps)
                stats['outcomes'][vec] = stats['outcomes'].get(vec, 0) + 1
                if leaf is not None:
                    leaf(ex, d)
        stats['states'] = len(visited)
        return stats

    def run_schedule(self, image, requests, schedule):
        """Replay one complete schedule (list of request indices) -> (execution, dump)."""
        self.h.write_image(image)
        ex0 = Execution(self, requests, ())
        ex0._digest_tables(TABLES)
        self.start_digests = dict(ex0.tabdig)
        ex = Execution(self, requests, tuple(schedule))
        ex.start()
        try:
            for c in schedule:
                if c not in ex.enabled():
                    raise HarnessError('schedule names finished request %d' % c)
                ex.step(c)
            while ex.enabled():          # run the rest without further switching
                ex.step(ex.enabled()[0])
        finally:
            if ex.enabled():
                ex.kill()
        return ex, Dump(self.h.dbfile)


def serial_orders(n, winners):
    return list(itertools.permutations(winners))


# ---------------------------------------------------------------------------------------------
# leaf oracle shared by C05 / C06 / C07
# ---------------------------------------------------------------------------------------------

def carried_provider_gens(req):
    """{provider uuid: generation} a request carries explicitly."""
    from vp import reqs as rq
    b = req.get('body')
    out = {}
    if not isinstance(b, dict):
        return out
    if req['path'] == '/reshaper':
        for rp, x in b.get('inventories', {}).items():
            out[rp] = x.get('resource_provider_generation')
    elif 'resource_provider_generation' in b:
        u = rq.target_provider(req)
        if u:
            out[u] = b['resource_provider_generation']
    return out


def carried_consumer_gens(req):
    """{consumer uuid: generation or None} for requests at >= 1.28."""
    from vp import reqs as rq
    if rq.ver(req.get('mv')) < (1, 28):
        return {}
    b = req.get('body')
    out = {}
    if not isinstance(b, dict):
        return out
    if req['method'] == 'PUT' and req['path'].startswith('/allocations/'):
        out[req['path'].split('/')[2]] = b.get('consumer_generation')
    elif req['path'] == '/allocations' and req['method'] == 'POST':
        for c, e in b.items():
            out[c] = e.get('consumer_generation')
    elif req['path'] == '/reshaper':
        for c, e in b.get('allocations', {}).items():
            out[c] = e.get('consumer_generation')
    return out


AUX = {'projects', 'users', 'consumer_types'}


def committing_txn(infos):
    """The transaction in which the request committed its data change (last commit that wrote
    something other than auxiliary get-or-create rows), or None."""
    best = None
    for t in infos:
        if t['outcome'] == 'commit' and set(t['writes']) - AUX - {'consumers'}:
            best = t
    if best is None:
        for t in infos:
            if t['outcome'] == 'commit' and set(t['writes']) - AUX:
                best = t
    return best


class Judge(object):
    def __init__(self, eng, image, requests, prop):
        self.eng = eng
        self.image = image
        self.requests = requests
        self.prop = prop
        self.serial_cache = {}
        self.viol = []
        self.retry_schedules = 0
        self.nested_reads = 0
        self.notes = {}

    def serial(self, order):
        if order not in self.serial_cache:
            st, d = self.eng.serial(self.image, self.requests, order)
            # per-request (status, error code) needs a re-run with bodies; keep statuses + codes
            self.serial_cache[order] = (st, d.core(gens=True), d, _core(d, True))
        return self.serial_cache[order]

    def serial_answers(self):
        """{request index: set of (status, code)} over every serial permutation of all requests."""
        if 'answers' in self.serial_cache:
            return self.serial_cache['answers']
        n = len(self.requests)
        ans = {i: set() for i in range(n)}
        bodies = {i: set() for i in range(n)}
        for order in itertools.permutations(range(n)):
            self.eng.h.write_image(self.image)
            for i in order:
                resp, _ = self.eng.call(self.requests[i])
                ans[i].add((resp.status, resp.err_code()))
                bodies[i].add(canon_body(resp))
        self.serial_cache['answers'] = ans
        self.serial_cache['bodies'] = bodies
        return ans

    def serial_bodies(self):
        self.serial_answers()
        return self.serial_cache['bodies']

    def __call__(self, ex, dump):
        from vp.snapshot import diff, inv_consumer, inv_ref
        reqs_ = self.requests
        sched = list(ex.choices)
        n = len(reqs_)
        statuses = [r.status for r in ex.resps]

        def add(sig, msg):
            self.viol.append((sig, msg, sched, statuses))
        for i in range(n):
            if any(t['nested'] for t in ex.txn_info[i]):
                self.nested_reads += 1
                break
        tags = [r.get('tag', '%s %s' % (r['method'], r['path'])) for r in reqs_]
        for i, r in enumerate(ex.resps):
            if r.status >= 500 and self.prop in ('C08', 'C09'):
                # referential integrity and the forest are about stored rows; a racing request
                # answered 5xx has no effect (checked below) -- counted, not judged here
                self.notes['5xx:%s' % tags[i]] = self.notes.get('5xx:%s' % tags[i], 0) + 1
            elif r.status >= 500:
                add('5xx:%s|vs|%s' % (tags[i], '+'.join(t for j, t in enumerate(tags) if j != i)),
                    '%s answered %s %s under schedule %s' % (tags[i], r.status, r.raw[:200], sched))
        winners = tuple(i for i in range(n) if statuses[i] < 300)
        # A write below 1.38 cannot name a consumer type and leaves whatever the record has; when
        # such a request races for a *new* consumer the record it adopts may have been created by
        # either party, so the stored type is unspecified: compare without it.
        from vp import reqs as rq
        mask_type = any(is_consumer_write(reqs_[i]) and rq.ver(reqs_[i].get('mv')) < (1, 38)
                        for i in range(n))
        final = _core(dump, mask_type)
        # the generation-less DELETE /allocations may have taken effect at any point: the other
        # requests' answers and the stored rows are judged, generation *values* are not
        mask_gens = any(_unsafe(reqs_[i]) for i in winners)
        if mask_gens:
            final = dump.core(gens=False)
        ok = False
        # DELETE /allocations/{c} carries no generation and is documented as unsafe against
        # concurrent writers: it may or may not take effect; only the other requests are judged
        unsafe = [i for i in winners if _unsafe(reqs_[i])]
        safe = [i for i in winners if i not in unsafe]
        for k in range(len(unsafe), -1, -1):
            for sub in itertools.combinations(unsafe, k):
                for order in itertools.permutations(tuple(safe) + sub):
                    st, core, dser, core_m = self.serial(order)
                    if mask_type:
                        core = core_m
                    if mask_gens:
                        core = dser.core(gens=False)
                    if all(s < 300 for s in st) and core == final:
                        ok = True
                        break
                if ok:
                    break
            if ok:
                break
        if not ok:
            # explain against the first permutation
            order = winners
            st, core, d, _cm = self.serial(order)
            kind = 'state-differs'
            for o2 in itertools.permutations(winners):
                if self.serial(o2)[3 if mask_type else 1] == final:
                    kind = 'same-state-but-not-all-succeed-serially'
            add('not-serializable:%s:%s:%s' % ('+'.join(sorted(tags)), statuses, kind),
                'schedule %s answered %s; no serial order of the successful requests %s gives the '
                'same state (serial %s -> statuses %s, diff %s)' % (
                    sched, statuses, list(winners), list(order), st,
                    diff(d, dump, gens=True)))
        from vp.snapshot import inv_forest
        for m in inv_ref(dump) + inv_consumer(dump) + inv_forest(dump):
            add('invariant:%s' % '+'.join(sorted(tags)), 'after schedule %s (%s): %s' % (
                sched, statuses, m))
        # losers: 409 concurrent_update, or an answer they also get in some serial order
        # (the generation properties' business; C08/C09 judge invariants and serial equivalence)
        for i in range(n if self.prop not in ('C08', 'C09') else 0):
            if statuses[i] < 300 or statuses[i] >= 500:
                continue
            if self.prop == 'C06' and is_consumer_write(reqs_[i]) and \
                    rq.ver(reqs_[i].get('mv')) < (1, 28):
                continue      # carries no consumer generation: a disturbing party, not judged
            code = ex.resps[i].err_code()
            if statuses[i] == 409 and (code == 'placement.concurrent_update' or code is None and
                                       _below_1_23(reqs_[i])):
                continue
            if (statuses[i], code) in self.serial_answers()[i]:
                continue
            add('loser-answer:%s:%s:%s' % (tags[i], statuses[i], code),
                '%s answered %s %s under schedule %s, which is neither 409 '
                'placement.concurrent_update nor an answer of any serial order (%s)' % (
                    tags[i], statuses[i], code, sched, sorted(self.serial_answers()[i],
                                                              key=repr)))
        if self.prop in ('C03', 'C13'):
            # a read overlapped by writes must answer as for ONE database state: its body (lists
            # compared as multisets) is the body it gets in some serial order of the same requests
            for i in range(n):
                if reqs_[i]['method'] != 'GET' or statuses[i] >= 500:
                    continue
                b = canon_body(ex.resps[i])
                if b not in self.serial_bodies()[i]:
                    add('read-consistency:%s|vs|%s' % (
                        tags[i], '+'.join(t for j, t in enumerate(tags) if j != i)),
                        '%s, overlapped by %s under schedule %s, answered %s %s, which it does not '
                        'answer in any serial order of these requests (%d distinct serial '
                        'answers)' % (tags[i], [t for j, t in enumerate(tags) if j != i], sched,
                                      statuses[i], ex.resps[i].raw[:300],
                                      len(self.serial_bodies()[i])))
        if self.prop == 'C10':
            # generations never move backwards, whatever the interleaving: the generation of a
            # provider / consumer record (same record id) seen at the begin of successive
            # transactions, in schedule order, and finally in the stored rows; and a successful
            # write reports a generation that the record has reached
            seen = []
            for i in range(n):
                for t in ex.txn_info[i]:
                    seen.append((t.get('seq', 0), t['pgens'], t['cgens'], t['cids']))
            seen.sort(key=lambda x: x[0])
            seen.append((None, {u: p['gen'] for u, p in dump.providers.items()},
                         {u: c['gen'] for u, c in dump.consumers.items()}, None))
            hi_p, hi_c = {}, {}
            for seq, pg, cg, ci in seen:
                for u, g in pg.items():
                    if u in hi_p and g < hi_p[u]:
                        add('c10-decrease:provider:%s' % '+'.join(sorted(tags)),
                            'generation of provider %s went from %s back to %s under schedule '
                            '%s (%s)' % (u, hi_p[u], g, sched, statuses))
                    hi_p[u] = max(g, hi_p.get(u, g))
                if ci is not None:
                    for u, g in cg.items():
                        k = (u, ci.get(u))
                        if k in hi_c and g < hi_c[k]:
                            add('c10-decrease:consumer:%s' % '+'.join(sorted(tags)),
                                'generation of consumer %s went from %s back to %s under '
                                'schedule %s (%s)' % (u, hi_c[k], g, sched, statuses))
                        hi_c[k] = max(g, hi_c.get(k, g))
            for i, r in enumerate(ex.resps):
                j = r.json if r.status < 300 else None
                if isinstance(j, dict) and 'resource_provider_generation' in j:
                    u = rq.target_provider(reqs_[i])
                    if u in dump.providers and dump.providers[u]['gen'] < j[
                            'resource_provider_generation']:
                        add('c10-reported:%s' % tags[i],
                            '%s reported generation %s for %s, the stored generation ends at %s '
                            '(schedule %s)' % (tags[i], j['resource_provider_generation'], u,
                                               dump.providers[u]['gen'], sched))
        # a request that names a generation the provider has left behind is refused for exactly
        # that reason, whatever else is going on (absolute rule: the differential rules above
        # compare the implementation with itself)
        if self.prop == 'C05':
            for i in range(n):
                if '(stale)' in tags[i] and statuses[i] == 409 and \
                        rq.ver(reqs_[i].get('mv')) >= (1, 23) and \
                        ex.resps[i].err_code() != 'placement.concurrent_update':
                    add('c05-stale-code:%s' % tags[i],
                        '%s was refused with 409 but error code %r instead of '
                        'placement.concurrent_update (schedule %s)' % (
                            tags[i], ex.resps[i].err_code(), sched))
        # generation rules
        if self.prop in ('C05', 'C07'):
            same = {}
            for i in range(n):
                for u, g in carried_provider_gens(reqs_[i]).items():
                    ct = committing_txn(ex.txn_info[i])
                    if statuses[i] < 300 and ct is not None:
                        at = ct['pgens'].get(u)
                        if at != g:
                            add('c05-stale-success:%s' % tags[i],
                                '%s carried generation %s for %s and succeeded, but at the begin '
                                'of its committing transaction the generation was %s (schedule '
                                '%s)' % (tags[i], g, u, at, sched))
                        same.setdefault((u, g), []).append(i)
        if self.prop in ('C06', 'C07'):
            same = {}
            for i in range(n):
                for c, g in carried_consumer_gens(reqs_[i]).items():
                    ct = committing_txn(ex.txn_info[i])
                    if statuses[i] < 300 and ct is not None:
                        at = ct['cgens'].get(c)
                        if _noop_for(reqs_[i], c):
                            # a clearing entry that finds nothing (left) to clear writes nothing
                            # for that consumer; one that does wipe another request's rows is
                            # caught by the serial-equivalence rule above
                            continue
                        if _created_consumer(ex.txn_info[i], ct, c):
                            # the record this request sees at its commit is the one it created
                            # itself in an earlier transaction of its own: for the purposes of
                            # the carried generation the consumer did not exist (null is the
                            # only generation that may be carried for it)
                            at = None
                        rows = {t['cids'].get(c) for t in ex.txn_info[i]
                                if 'consumers' in t['reads'] or 'consumers' in t['writes']
                                } - {None}
                        # (table-level read sets: only judged for requests naming one consumer, where
                        # every transaction touching `consumers` concerns that consumer)
                        if g is not None and len(rows) > 1 and \
                                len(carried_consumer_gens(reqs_[i])) == 1:
                            # the record the request verified its generation against was deleted
                            # and another one created under the same uuid while it was in flight
                            add('c06-incarnation:%s' % tags[i],
                                '%s carried consumer generation %r for %s and succeeded although '
                                'the consumer record it had read was removed and re-created by '
                                'other requests in the meantime (record ids seen at its '
                                'transaction begins: %s): it replaced allocations written after '
                                'it last read the consumer (schedule %s)' % (
                                    tags[i], g, c, sorted(rows), sched))
                        if at != g:
                            add('c06-stale-success:%s' % tags[i],
                                '%s carried consumer generation %r for %s and succeeded, but at '
                                'the begin of its committing transaction it was %r (schedule %s)'
                                % (tags[i], g, c, at, sched))
                        same.setdefault((c, g), []).append(i)


def canon_body(resp):
    """(status, canonical JSON with every list sorted) -- order-insensitive body digest"""
    import json

    def norm(x):
        if isinstance(x, dict):
            return {k: norm(v) for k, v in sorted(x.items())}
        if isinstance(x, list):
            return sorted((norm(v) for v in x), key=lambda v: json.dumps(v, sort_keys=True))
        return x
    j = resp.json
    if j is None:
        return (resp.status, _h(_mask(resp.raw)))
    if resp.status >= 400:
        return (resp.status, resp.err_code())
    return (resp.status, _h(json.dumps(norm(j), sort_keys=True)))


def is_consumer_write(req):
    return ((req['method'] == 'PUT' and req['path'].startswith('/allocations/')) or
            (req['method'] == 'POST' and req['path'] in ('/allocations', '/reshaper')))


def _noop_for(req, consumer):
    from vp import reqs as rq
    placed = rq.placed(req).get(consumer)
    return placed is not None and not placed


def _core(d, mask_type):
    if not mask_type:
        return d.core(gens=True)
    saved = {u: c['type'] for u, c in d.consumers.items()}
    for c in d.consumers.values():
        c['type'] = None
    try:
        return d.core(gens=True)
    finally:
        for u, c in d.consumers.items():
            c['type'] = saved[u]


def _unsafe(req):
    return req['method'] == 'DELETE' and req['path'].startswith('/allocations/')


def _created_consumer(infos, ct, c):
    """Did this request itself insert the record of consumer c before its committing
    transaction ct (c absent at the begin of one of its own committed transactions that wrote
    `consumers`, present at the begin of ct)?"""
    if c not in ct['cids']:
        return False
    for t in infos:
        if t is ct:
            return False
        if t['outcome'] == 'commit' and 'consumers' in t['writes'] and c not in t['cids']:
            return True
    return False


def _below_1_23(req):
    from vp import reqs as rq
    return rq.ver(req.get('mv')) < (1, 23)


class ConcWorker(object):
    def __init__(self, base_image, conf=None, fk=True):
        self.eng = Engine(base_image, conf, fk)
        self.images = {}

    def work(self, task):
        setup_key = repr(task['setup'])
        if setup_key not in self.images:
            self.images[setup_key] = self.eng.build(task['setup'])
        image = self.images[setup_key]
        judge = Judge(self.eng, image, task['requests'], task['prop'])
        st = self.eng.explore(image, task['requests'], bound=task.get('bound'),
                              max_exec=task.get('max_exec', 5000), leaf=judge)
        # determinism: the first complete schedule replayed twice gives the same observations
        det = None
        if task.get('check_determinism'):
            a, da = self.eng.run_schedule(image, task['requests'], [])
            b, db = self.eng.run_schedule(image, task['requests'], list(a.choices))
            det = (a.keys == b.keys and da.core() == db.core() and
                   [r.status for r in a.resps] == [r.status for r in b.resps])
        st['outcomes'] = {repr(k): v for k, v in st['outcomes'].items()}
        return {'stats': st, 'viol': judge.viol[:50], 'nested_reads': judge.nested_reads,
                'notes': judge.notes,
                'determinism': det, 'name': task.get('name')}


def make_worker(base_image, conf=None, fk=True):
    return ConcWorker(base_image, conf, fk)


def run_scenarios(ctx, prop, scenarios, modname='vp.explore_conc', fk=True, conf=None):
    """scenarios: list of dict(name, setup, requests, bound, max_exec). Returns totals."""
    from vp.boot import make_base_image
    from vp.workers import Pool
    base = make_base_image()
    pool = Pool(ctx.workers, 'vp.explore_conc', 'make_worker', (base, conf, fk))
    tot = {'scenarios': 0, 'executions': 0, 'states': 0, 'transitions': 0, 'leaves': 0,
           'capped': [], 'single_outcome': [], 'outcome_vectors': {}, 'nested_read_scenarios': 0,
           'determinism_checks': 0, 'max_preemptions': 0, 'samples': [], 'notes': {}}
    tasks = []
    import os
    only = os.environ.get('VP_ONLY')
    if only:
        scenarios = [s for s in scenarios if only in s['name']]
    for i, s in enumerate(scenarios):
        t = dict(s)
        t['prop'] = prop
        t['check_determinism'] = (i % 10 == 0)
        tasks.append(t)
    # longest first would be better for balance; keep given order for determinism of reports
    try:
        for s, res in zip(tasks, pool.map(tasks)):
            st = res['stats']
            tot['scenarios'] += 1
            tot['executions'] += st['executions']
            tot['states'] += st['states']
            tot['transitions'] += st['steps']
            tot['leaves'] += st['leaves']
            tot['max_preemptions'] = max(tot['max_preemptions'], st['max_preemptions'])
            if st['capped']:
                tot['capped'].append(s['name'])
            if len(st['outcomes']) == 1:
                tot['single_outcome'].append(s['name'])
            tot['outcome_vectors'][s['name']] = st['outcomes']
            if res['nested_reads']:
                tot['nested_read_scenarios'] += 1
            for k, v in (res.get('notes') or {}).items():
                tot['notes'][k] = tot['notes'].get(k, 0) + v
            if res['determinism'] is not None:
                tot['determinism_checks'] += 1
                if not res['determinism']:
                    raise HarnessError('schedule replay of %s is not deterministic' % s['name'])
            for sig, msg, sched, statuses in res['viol']:
                ctx.violation(sig, msg, {'engine': 'conc', 'prop': prop, 'setup': s['setup'],
                                         'requests': s['requests'], 'schedule': sched,
                                         'statuses': statuses, 'fk': fk})
            if len(tot['samples']) < 3:
                tot['samples'].append({'scenario': s['name'], 'outcomes': st['outcomes'],
                                       'states': st['states'], 'executions': st['executions']})
            if ctx.out_of_time():
                ctx.cap('budget exhausted after %d of %d scenarios' % (tot['scenarios'],
                                                                       len(tasks)))
                break
    finally:
        pool.close()
    return tot


def replay(ctx, data):
    from vp.boot import make_base_image
    base = make_base_image()
    eng = Engine(base, None, data.get('fk', True))
    image = eng.build(data['setup'])
    judge = Judge(eng, image, data['requests'], data['prop'])
    ex, d = eng.run_schedule(image, data['requests'], data['schedule'])
    judge(ex, d)
    for sig, msg, sched, st in judge.viol:
        if sig == data['signature']:
            return False, 'reproduced: %s' % msg
    return True, 'signatures seen: %s; statuses %s' % ([v[0] for v in judge.viol],
                                                       [r.status for r in ex.resps])
