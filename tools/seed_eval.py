#!/usr/bin/env python3
"""Confirm and evaluate one seeded change delivered by a helper under /tmp/seeds/<pid>/.

  tools/seed_eval.py c05 a [--checks C05,C07] [--tier quick] [--keep]

Steps (everything in a fresh scratch worktree of /repo, removed afterwards):
  1. apply /tmp/seeds/<pid>/<x>.diff; run the pinned baseline tests; compare with BASELINE.json
  2. run the demonstration with the change (must exit != 0) and without it (must exit 0)
  3. run the given checks (default: the property's own) against the changed tree (VP_REPO)
  4. with --keep: store patch, demonstration and meta.json under /verif/seeded/<pid>-<x>/

  tools/seed_eval.py --stored c05-2a [--checks ...]   re-runs the checks (and the demonstration)
  for a change already stored under /verif/seeded/ and refreshes the 'checks' part of its meta.json
"""
import json
import os
import re
import shutil
import subprocess
import sys
import time

ROOT = os.path.dirname(os.path.dirname(os.path.abspath(__file__)))


def sh(cmd, cwd=None, env=None, timeout=None):
    r = subprocess.run(cmd, cwd=cwd, env=env, stdout=subprocess.PIPE, stderr=subprocess.STDOUT,
                       text=True, timeout=timeout, shell=isinstance(cmd, str))
    return r.returncode, r.stdout


def stored(name, args):
    d = os.path.join(ROOT, 'seeded', name)
    meta = json.load(open(os.path.join(d, 'meta.json')))
    checks = [meta['breaks']]
    if '--checks' in args:
        checks = args[args.index('--checks') + 1].split(',')
    wt = '/tmp/seedeval-%s-%d' % (name, os.getpid())
    subprocess.check_call(['git', '-C', '/repo', 'worktree', 'add', '-q', '--detach', wt])
    try:
        rc0, _ = sh(['/venv/bin/python', os.path.join(d, 'demo.py')], cwd=wt, timeout=900)
        rc, o = sh(['git', 'apply', os.path.join(d, 'patch.diff')], cwd=wt)
        if rc:
            rc, o = sh(['git', 'apply', '--3way', os.path.join(d, 'patch.diff')], cwd=wt)
            sh(['git', 'reset', '-q'], cwd=wt)
        if rc:
            print('patch does not apply:', o)
            return 3
        rc1, _ = sh(['/venv/bin/python', os.path.join(d, 'demo.py')], cwd=wt, timeout=900)
        print('  demo: without=%d with=%d' % (rc0, rc1))
        res = dict(meta.get('checks', {}))
        for c in checks:
            t0 = time.time()
            rc, o = sh(['/venv/bin/python', '-m', 'vp.check', c, '--tier', 'quick'], cwd=ROOT,
                       env=dict(os.environ, VP_REPO=wt), timeout=7200)
            lines = o.strip().splitlines()
            nv = sum(1 for l in lines if l.startswith('VIOLATION'))
            first = next((l.strip() for l in lines if l.startswith('  ')), '')
            res[c] = {'exit': rc, 'violations': nv, 'first': first[:300],
                      'summary': lines[-1][:200] if lines else '',
                      'wall_s': round(time.time() - t0, 1)}
            print('  check %s: exit=%d violations=%d %s' % (c, rc, nv, first[:160]))
        meta['checks'] = res
        meta['demo_exit_without_change'], meta['demo_exit_with_change'] = rc0, rc1
        meta['checks_run_at_repo_head'] = subprocess.check_output(
            ['git', '-C', '/repo', 'rev-parse', '--short', 'HEAD']).decode().strip()
        json.dump(meta, open(os.path.join(d, 'meta.json'), 'w'), indent=1)
    finally:
        subprocess.call(['git', '-C', '/repo', 'worktree', 'remove', '--force', wt])
    return 0


def main():
    if sys.argv[1] == '--stored':
        return stored(sys.argv[2], sys.argv[3:])
    pid, x = sys.argv[1].lower(), sys.argv[2]
    args = sys.argv[3:]
    checks = [pid.upper()]
    tier = 'quick'
    if '--checks' in args:
        checks = args[args.index('--checks') + 1].split(',')
    if '--tier' in args:
        tier = args[args.index('--tier') + 1]
    keep = '--keep' in args
    skip_tests = '--skip-tests' in args
    base = os.environ.get('SEED_DIR', '/tmp/seeds')
    wave = os.environ.get('SEED_WAVE', '')
    src = '%s/%s' % (base, pid)
    diff = os.path.join(src, '%s.diff' % x)
    demo = os.path.join(src, 'demo_%s.py' % x)
    wt = '/tmp/seedeval-%s-%s-%d' % (pid, x, os.getpid())
    subprocess.check_call(['git', '-C', '/repo', 'worktree', 'add', '-q', '--detach', wt])
    out = {'property': pid.upper(), 'variant': x, 'repo_head': subprocess.check_output(
        ['git', '-C', '/repo', 'rev-parse', '--short', 'HEAD']).decode().strip()}
    try:
        # demonstration on the unchanged tree
        rc0, o0 = sh(['/venv/bin/python', demo], cwd=wt, timeout=900)
        out['demo_exit_without_change'] = rc0
        rc, o = sh(['git', 'apply', diff], cwd=wt)
        if rc:
            rc, o = sh(['git', 'apply', '--3way', diff], cwd=wt)
            out['applied_with_3way_merge'] = True
        if rc:
            print('patch does not apply:', o)
            return 3
        if out.get('applied_with_3way_merge'):
            sh(['git', 'reset', '-q'], cwd=wt)
        out['files'] = sorted(set(re.findall(r'^\+\+\+ b/(\S+)', open(diff).read(), re.M)))
        rc1, o1 = sh(['/venv/bin/python', demo], cwd=wt, timeout=900)
        out['demo_exit_with_change'] = rc1
        out['demo_output_with_change'] = o1[-600:]
        if not skip_tests:
            base = json.load(open('/root/.vp/BASELINE.json'))
            junit = os.path.join(wt, 'junit.xml')
            rc, o = sh('/venv/bin/python -m pytest -ra -q -p no:cacheprovider --timeout=900 '
                       '--continue-on-collection-errors --junitxml=%s' % junit, cwd=wt,
                       timeout=3000)
            import xml.etree.ElementTree as ET
            passed, failed = set(), set()
            for tc in ET.parse(junit).getroot().iter('testcase'):
                name = '%s::%s' % (tc.get('classname'), tc.get('name'))
                if any(ch.tag in ('failure', 'error') for ch in tc):
                    failed.add(name)
                elif not any(ch.tag == 'skipped' for ch in tc):
                    passed.add(name)
            stable = set(base['stable_pass'])
            out['tests_passed'] = len(passed)
            out['baseline_tests_now_failing'] = sorted(stable - passed)
            os.unlink(junit)
        res = {}
        for c in checks:
            t0 = time.time()
            env = dict(os.environ, VP_REPO=wt)
            rc, o = sh(['/venv/bin/python', '-m', 'vp.check', c, '--tier', tier], cwd=ROOT,
                       env=env, timeout=7200)
            lines = o.strip().splitlines()
            nv = sum(1 for l in lines if l.startswith('VIOLATION'))
            first = next((l.strip() for l in lines if l.startswith('  ')), '')
            res[c] = {'exit': rc, 'violations': nv, 'first': first[:300],
                      'summary': lines[-1][:200] if lines else '', 'wall_s': round(
                          time.time() - t0, 1)}
            print('  check %s: exit=%d violations=%d %s' % (c, rc, nv, first[:160]))
            if rc == 2:
                print('\n'.join(lines[-12:]))
        out['checks'] = res
        ok = (out['demo_exit_without_change'] == 0 and out['demo_exit_with_change'] != 0 and
              not out.get('baseline_tests_now_failing'))
        out['confirmed'] = ok
        print(json.dumps({k: v for k, v in out.items() if k not in (
            'demo_output_with_change', 'checks')}, indent=1))
        if keep and ok:
            dst = os.path.join(ROOT, 'seeded', '%s-%s%s' % (pid, wave, x))
            os.makedirs(dst, exist_ok=True)
            if out.get('applied_with_3way_merge'):
                rc_, o_ = sh(['git', 'diff'], cwd=wt)
                open(os.path.join(dst, 'patch.diff'), 'w').write(o_)
            else:
                shutil.copyfile(diff, os.path.join(dst, 'patch.diff'))
            shutil.copyfile(demo, os.path.join(dst, 'demo.py'))
            meta = {}
            mp = os.path.join(src, 'meta.json')
            if os.path.exists(mp):
                try:
                    for m in json.load(open(mp)):
                        if m.get('id') == x:
                            meta = m
                except Exception:
                    pass
            out['breaks'] = pid.upper()
            out['summary'] = meta.get('summary')
            out['needs_to_manifest'] = meta.get('needs')
            out['what_was_run'] = (
                'patch applied to a scratch worktree of /repo at %s; pinned test suite (361 '
                'stable tests) run there; demo.py run with and without the patch; checks run '
                'with VP_REPO=<worktree> /venv/bin/python -m vp.check <ID> --tier %s' % (
                    out['repo_head'], tier))
            json.dump(out, open(os.path.join(dst, 'meta.json'), 'w'), indent=1)
    finally:
        subprocess.call(['git', '-C', '/repo', 'worktree', 'remove', '--force', wt])
    return 0


if __name__ == '__main__':
    sys.exit(main())
