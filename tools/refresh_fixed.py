#!/usr/bin/env python3
"""Re-resolve the commit hashes of `fixed` entries in known_findings.json from their subjects
(development-time helper; the checks never write that file)."""
import json
import subprocess

p = '/verif/known_findings.json'
d = json.load(open(p))
log = subprocess.check_output(['git', '-C', '/repo', 'log', '--format=%h\t%s']).decode().splitlines()
by_subject = {l.split('\t', 1)[1]: l.split('\t', 1)[0] for l in log}
by_hash = {v: k for k, v in by_subject.items()}
for f in d['findings']:
    if f.get('status') != 'fixed':
        continue
    subj = f.get('commit_subject') or by_hash.get(f['commit'])
    if subj is None:
        raise SystemExit('cannot resolve %s' % f['commit'])
    f['commit_subject'] = subj
    new = by_subject[subj]
    if new != f['commit']:
        f['line'] = f['line'].replace(f['commit'], new)
        f['commit'] = new
json.dump(d, open(p, 'w'), indent=1)
print('ok')
