#!/usr/bin/env python3
"""acdebug.py <replay file>  -- show response vs oracle for a C03/C02 replay"""
import json, sys, os
os.environ.setdefault('PYTHONHASHSEED','0')
sys.path.insert(0,'/verif')
if os.environ.get('VP_REPO'): sys.path.insert(0, os.environ['VP_REPO'])
from vp.boot import Harness
from vp.http import R, call
from vp.snapshot import Dump
from vp.oracles_ac import ac_oracle, fmt, parse_response, to_qs
d=json.load(open(sys.argv[1]))
h=Harness()
for r in d['setup']:
    x=call(h.app,r)
    assert x.status<400,(r,x.raw)
dump=Dump(h.dbfile)
q=d['query']
print('QUERY', to_qs(q), q['mv'])
b=dump.brief()
for u,p in b['providers'].items(): print(' rp',u[-2:],'parent',(p[1] or '--')[-2:], 'traits',sorted(t for r,t in dump.rp_traits if r==u),'aggs',sorted(a[-1] for r,a in dump.rp_aggs if r==u), {k.split('/')[1]:(v['total'],v['reserved'],v['min_unit'],v['max_unit'],v['step_size'],v['allocation_ratio']) for k,v in b['inventories'].items() if k.startswith(u)}, {k[1]:v for k,v in dump.used().items() if k[0]==u})
resp=call(h.app,R('GET','/allocation_candidates',query=to_qs(q),mv=q['mv']))
print('STATUS',resp.status, resp.raw[:300] if resp.status!=200 else '')
if resp.status==200:
    got=set(parse_response(resp.json,q['mv'])); exp=ac_oracle(dump,q)
    print('GOT'); [print('   ',x) for x in fmt(got)]
    print('MISSING'); [print('   ',x) for x in fmt(exp-got)]
    print('SPURIOUS'); [print('   ',x) for x in fmt(got-exp)]
