#!/bin/bash
# Run every quick check once with the given VERIF_SEED (default 0) and print one line per check.
cd /verif
export VERIF_SEED=${1:-0}
for c in C01 C02 C03 C04 C05 C06 C07 C08 C09 C10 C11 C12 C13 C14 C15 C16 C17 C18 C19 C20; do
  out=$(/venv/bin/python -m vp.check $c --tier quick 2>&1); rc=$?
  echo "seed=$VERIF_SEED $c exit=$rc $(echo "$out" | grep -c '^VIOLATION') violations; $(echo "$out" | tail -1 | cut -c1-160)"
done
