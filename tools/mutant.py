#!/usr/bin/env python3
"""Apply a small edit to a scratch worktree of /repo and run checks against it (VP_REPO).

  tools/mutant.py <mutant-name> <check-id> [<check-id> ...] [--tier quick]

Mutants are (file, old, new) text replacements listed in mutants/local.json. /repo is never
modified; the worktree is removed afterwards.
"""
import json
import os
import subprocess
import sys

ROOT = os.path.dirname(os.path.dirname(os.path.abspath(__file__)))


def main():
    name = sys.argv[1]
    checks = [a for a in sys.argv[2:] if not a.startswith('--')]
    tier = 'quick'
    if '--tier' in sys.argv:
        tier = sys.argv[sys.argv.index('--tier') + 1]
    muts = json.load(open(os.path.join(ROOT, 'mutants', 'local.json')))
    m = muts[name]
    wt = '/tmp/vpmut-%s-%d' % (name, os.getpid())
    subprocess.check_call(['git', '-C', '/repo', 'worktree', 'add', '-q', '--detach', wt])
    rc = {}
    try:
        for f, old, new in m['edits']:
            p = os.path.join(wt, f)
            s = open(p).read()
            if s.count(old) != 1:
                print('MUTANT %s: pattern occurs %d times in %s' % (name, s.count(old), f))
                return 3
            open(p, 'w').write(s.replace(old, new))
        env = dict(os.environ, VP_REPO=wt)
        for c in checks:
            r = subprocess.run(['/venv/bin/python', '-m', 'vp.check', c, '--tier', tier],
                               cwd=ROOT, env=env, stdout=subprocess.PIPE,
                               stderr=subprocess.STDOUT, text=True)
            lines = r.stdout.strip().splitlines()
            nviol = sum(1 for l in lines if l.startswith('VIOLATION'))
            rc[c] = r.returncode
            print('MUTANT %s check %s: exit=%d violations=%d  %s' % (
                name, c, r.returncode, nviol, lines[-1][:160] if lines else ''))
            for l in lines:
                if l.startswith('  ') and nviol:
                    print('     ', l.strip()[:200])
                    break
            if r.returncode == 2:
                print('\n'.join(lines[-15:]))
    finally:
        subprocess.call(['git', '-C', '/repo', 'worktree', 'remove', '--force', wt])
    return 0


if __name__ == '__main__':
    sys.exit(main())
