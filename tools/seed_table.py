#!/usr/bin/env python3
"""Regenerate seeded/README.md from the meta.json files."""
import glob
import json
import os

ROOT = os.path.dirname(os.path.dirname(os.path.abspath(__file__)))
rows = []
for f in sorted(glob.glob(os.path.join(ROOT, 'seeded', '*', 'meta.json'))):
    m = json.load(open(f))
    name = os.path.basename(os.path.dirname(f))
    caught = [c for c, r in m.get('checks', {}).items() if r['exit'] == 1]
    missed = [c for c, r in m.get('checks', {}).items() if r['exit'] == 0]
    rows.append((name, m.get('breaks'), (m.get('summary') or '').replace('|', '/').replace('\n', ' ')[:230],
                 (m.get('needs_to_manifest') or '').replace('|', '/').replace('\n', ' ')[:160],
                 ', '.join(caught) or '-', ', '.join(missed) or '-'))
out = ['# Seeded property-breaking changes', '',
       'Each directory holds `patch.diff` (against /repo at the commit named in meta.json), `demo.py` (exits 1',
       'with the patch, 0 without; run from a worktree of /repo) and `meta.json` (what it breaks, what it needs in',
       'order to manifest, what was run: the pinned 361-test suite stays green with every patch). The changes',
       'were written by helper agents that saw only the text of one property and a scratch worktree. Re-check one',
       'with `python3 tools/seed_eval.py <pid> <a|b>` (sources under /tmp are not kept; the patches here apply with',
       '`git apply` in a scratch worktree, checks run against it with `VP_REPO=<worktree>`).', '',
       '| seed | property | change | needs | caught by (quick tier) | silent |', '|---|---|---|---|---|---|']
for r in rows:
    out.append('| %s | %s | %s | %s | %s | %s |' % r)
n = len(rows)
c = sum(1 for r in rows if r[4] != '-')
out += ['', '%d seeds, %d caught by at least one registered check.' % (n, c)]
open(os.path.join(ROOT, 'seeded', 'README.md'), 'w').write('\n'.join(out) + '\n')
print(n, c)
