#!/usr/bin/env python3
"""Run the pinned test suite with a stored seeded change applied and record the outcome in its
meta.json (tests_passed, baseline_tests_now_failing, confirmed).

  tools/seed_confirm.py c05-3a [c05-3b ...]      (independent of the checks; safe to run in parallel)
"""
import json
import os
import subprocess
import sys
import xml.etree.ElementTree as ET

ROOT = os.path.dirname(os.path.dirname(os.path.abspath(__file__)))


def main():
    base = json.load(open('/root/.vp/BASELINE.json'))
    stable = set(base['stable_pass'])
    for name in sys.argv[1:]:
        d = os.path.join(ROOT, 'seeded', name)
        meta = json.load(open(os.path.join(d, 'meta.json')))
        wt = '/tmp/seedconfirm-%s-%d' % (name, os.getpid())
        subprocess.check_call(['git', '-C', '/repo', 'worktree', 'add', '-q', '--detach', wt])
        try:
            r = subprocess.run(['git', 'apply', os.path.join(d, 'patch.diff')], cwd=wt)
            if r.returncode:
                print(name, 'patch does not apply')
                continue
            junit = os.path.join(wt, 'junit.xml')
            subprocess.run('/venv/bin/python -m pytest -ra -q -p no:cacheprovider --timeout=900 '
                           '--continue-on-collection-errors --junitxml=%s' % junit, cwd=wt,
                           shell=True, stdout=subprocess.DEVNULL, stderr=subprocess.DEVNULL,
                           timeout=3000)
            passed = set()
            for tc in ET.parse(junit).getroot().iter('testcase'):
                nm = '%s::%s' % (tc.get('classname'), tc.get('name'))
                if not any(ch.tag in ('failure', 'error', 'skipped') for ch in tc):
                    passed.add(nm)
            meta['tests_passed'] = len(passed)
            meta['baseline_tests_now_failing'] = sorted(stable - passed)
            meta['confirmed'] = (meta.get('demo_exit_without_change') == 0 and
                                 meta.get('demo_exit_with_change') not in (0, None) and
                                 not meta['baseline_tests_now_failing'])
            json.dump(meta, open(os.path.join(d, 'meta.json'), 'w'), indent=1)
            print(name, 'tests_passed=%d now_failing=%d confirmed=%s' % (
                len(passed), len(meta['baseline_tests_now_failing']), meta['confirmed']), flush=True)
        finally:
            subprocess.call(['git', '-C', '/repo', 'worktree', 'remove', '--force', wt])


if __name__ == '__main__':
    main()
