#!/usr/bin/env python3
"""Regenerates /verif/MANIFEST.json from the table below (keeps it valid at all times)."""
import json
import os

ROOT = os.path.dirname(os.path.dirname(os.path.abspath(__file__)))
PY = '/venv/bin/python'

# id -> (engine, category, technique, text, note, design_ref)
CHECKS = {
    'C02': ('E-enum', 'exploration',
            'deviation-bounded exhaustive enumeration of scope states x query grammar; every returned candidate is claimed on the real service',
            'Same scope states and query grammar as C03 at microversions 1.10, 1.12, 1.17, 1.25, 1.26, 1.27, 1.29, 1.34, 1.36, 1.39; every returned allocation '
            'request is checked for shape (an assignment of each group to its mapped providers must reproduce the returned amounts exactly; per-'
            'class totals equal the request), its provider summaries are compared with the raw rows (capacity incl. a fractional one that rounds up, used, traits, classes - only the requested ones below 1.27 -, parent/'
            'root per version), and it is sent unchanged as PUT /allocations/{new consumer} on a fresh restore of the same state, which must '
            'answer 204. The grammar always contains groups overlapping on a resource class (shared-object hazard of consolidation).',
            'scope and joint deviation bound as in C03; capacity in summaries is int((total - reserved) * ratio) as documented',
            'DESIGN.md 5.C02'),
    'C13': ('E-enum', 'exploration',
            'complete enumeration of scope states x filter combinations on the real service against a brute-force oracle over the rows',
            'Scope-enumerated states (6 topologies x <=1 (quick) / <=2 (thorough) decoration deltas) x every single value, every pair (thorough: '
            'every triple) and the all-six-active combinations of the filters name, uuid, in_tree, member_of (repeated, in:, !, !in:), required '
            '(repeated, in:, !) and resources (amounts hitting each of capacity, min_unit, max_unit, step_size in isolation) at 1.39 and at the '
            'microversions where each filter appeared or changed; the returned uuid set must equal the set computed from the raw rows, unknown '
            'in_tree/uuid/aggregates give an empty list and unknown traits/classes 400. Second part (E-conc): every interleaving of one listing with one or two writers that change what the filters see; the body must be one the listing gives in a serial order of the same requests.',
            'decorated states only get the queries their delta can influence (recorded in the evidence); double-precision capacity arithmetic',
            'DESIGN.md 5.C13'),
    'C20': ('E-enum', 'exploration',
            'exhaustive enumeration of limits and of every answer sequence of the random source on the real service',
            'For every (state, query) of the C03 grammar with 1 <= M <= 6 results: every limit 1..M+1 with randomisation off (identical request '
            'twice, prefix of the unlimited list) and on, where the module-level random source is replaced by a scripted random.Random whose '
            '_randbelow answers are enumerated depth-first, so every outcome of random.sample / shuffle is produced (all limits for M <= 4, limits 1-2 '
            'for M in 5..6, every shuffle for M <= 4); each result must have exactly min(N, M) distinct members of the unlimited set and '
            'summaries for every provider they name.',
            'random source owned through the module attribute research_context.random; scope as in C03',
            'DESIGN.md 5.C20'),
    'C03': ('E-enum', 'exploration',
            'deviation-bounded exhaustive enumeration of scope states x query grammar on the real service against a brute-force oracle',
            'States from the scope enumerator (6 base topologies: flat, nested depth 2 and 3, sharing, nested + sharing through a non-root '
            'member, a nested sharing provider; x decoration deltas on inventories, usage, traits, aggregates) x queries (17 base requests x '
            'every set of filter deviations: traits, in:, forbidden traits, member_of variants, in_tree, amounts, group_policy, same_subtree '
            'subsets, a resourceless group, root_required) under a joint deviation bound (quick: (0 state deltas, <=1 query deviation), (1, 0); '
            'thorough: (0, <=2), (1, <=1), (2 on one provider, 0)) at the microversions where semantics change (single deviations also at 1.28 and 1.24, below nested awareness); the returned set of '
            '(allocations, mappings) must equal the set computed by an oracle transcribed from the property statement over the raw rows. Second part (E-conc): '
            'every interleaving of one GET with one or two committed writers (re-parenting, first child creation + stocking, reshaper, traits, aggregates, usage); the body must be one the GET gives in a serial order.',
            'small scope (<= 7 providers, 3 trees, depth 3, 4 classes, 4 traits, 3 aggregates); oracle reading of unsuffixed in_tree follows provider-tree.rst',
            'DESIGN.md 5.C03'),
    'C11': ('E-seq', 'model_checking',
            'explicit-state BFS over request histories with a reference model stepped in lock-step on every transition',
            'From three start states all histories to depth 2 (quick) / 3-4 (thorough) over an alphabet of about 250 request kinds touching every '
            'documented route with valid and invalid arguments at the microversions on both sides of each change; for each transition the '
            'reference model RefPlacement (written from the api-ref) is built from the pre-state rows, stepped, and compared with status, '
            'normalised body and post-state rows; every new state is probed with 45-70 GETs (all read views, cross-view sums).',
            'reference model trusted after lock-step agreement; statuses the documentation does not pin are listed in the evidence',
            'DESIGN.md 5.C11'),
    'C19': ('E-seq', 'model_checking',
            'explicit-state BFS to a fixpoint over request histories interleaved with the restart event',
            'Five start databases (synchronised, never synchronised, three partially synchronised) x an alphabet of trait / resource-class '
            'creations, idempotent re-creations, renames (1.6), deletions with valid, standard and invalid names (case, bare prefix, 255/256 '
            'characters, trailing newline), provider usage of a custom name, and the restart event; class ids are part of the state; the search '
            'reaches a fixpoint inside a stated id window; a reference model of the two tables decides status and post-state of every '
            'transition and INV-std is evaluated after every restart. Second part (E-fault): every single database fault at every statement of the three start-up synchronisations and of the class / trait writes; a failed synchronisation must be repaired by the next one, in the same process and in a new one.',
            'custom class ids explored inside a window of K ids above 10000 (stated in evidence); pool of 3 custom names',
            'DESIGN.md 5.C19'),
    'C17': ('E-fault', 'fault_enumeration',
            'exhaustive fault placement: one database fault of every kind at every SQL statement index of every corpus request on the real service (thorough: pairs and triples)',
            'Corpus of 35 entries covering every write route in a state where it succeeds and, for the multi-step ones, in one where '
            'it is rejected after its write transaction started, plus start-up synchronisation on an empty, partial and full database; '
            'for every statement index k and every fault kind (deadlock with the transaction left open, deadlock with the transaction '
            'rolled back by the DBMS, duplicate key with a racing creator whose row becomes visible after the transaction, connection, '
            'generic, raw driver error) the request is re-run with the fault at statement k; thorough adds every second (and third) fault after a '
            'successfully retried first one. Oracle: 2xx implies the same rows as the fault-free run with generations moved exactly '
            'where it moved them, an error is a well-formed JSON error and leaves the pre-state; faults inside the retry-wrapped '
            'functions must be retried (statement re-execution counted).',
            'faults injected above the driver; SQLite substrate; sleeping between retries disabled',
            'DESIGN.md 5.C17'),
    'C18': ('E-crash', 'fault_enumeration',
            'exhaustive crash-point enumeration: the process dies before/after every SQL statement and before every commit of every corpus request',
            'Same corpus as C17; at every crash point the request is abandoned by a BaseException from the statement/commit hook, a copy '
            'of the database file and its rollback journal is taken at that instant and recovered by SQLite itself; the survivor must '
            'equal the file left after unwinding and must satisfy INV-ref, INV-forest, the capacity predicate, and equal the pre-state or '
            'the complete post-state on providers, inventories, associations and allocations (extra project/user/type rows and a consumer '
            'without allocations are the only tolerated residue).',
            'SQLite rollback-journal recovery stands in for the DBMS rolling back the transaction in flight',
            'DESIGN.md 5.C18'),
    'C15': ('E-enum', 'exploration',
            'deviation-bounded exhaustive enumeration (every single mutation; thorough: every pair) of a mutation grammar over a corpus of valid requests on the real service',
            'Corpus of 62 valid requests (one per route x method x body/query format) in three states (empty, populated flat, '
            'nested with a nested sharing provider); every mutation operator (junk values up to 64-bit integers, NaN, unicode, '
            'control characters, lone surrogates, delete/add/duplicate keys, query/path/header/envelope and raw-body damage) is '
            'applied at every position: depth 1 complete in quick (about 109k requests), all pairs within a request part in '
            'thorough (about 800k). Oracle: the WSGI call returns, status < 500, 4xx bodies follow the errors guideline (code from '
            '1.23), and 400/404/405/406/415 leave the database unchanged.',
            'SQLite stands in for the DBMS (its driver-side integer range check is counted, not judged); rows in projects/users/consumer_types are exempt from the unchanged-state rule as C04 allows',
            'DESIGN.md 5.C15'),
    'C05': ('E-conc', 'model_checking',
            'stateless exploration of ALL transaction-level interleavings of concurrent requests on the real service, with state matching',
            'Three start states x every unordered pair (with repetition) of 25 provider-writing operations (incl. the generation-less provider rename and writes that empty the provider), generation-'
            'carrying ones with current, stale and not-yet-reached generations, x all interleavings at top-level-transaction granularity '
            '(thorough: plus triples, preemption bound 3). Each request runs in its own greenlet on the real WSGI stack; '
            'every complete schedule class is judged: no 5xx, winners equivalent to a serial order, losers 409 '
            'placement.concurrent_update (or a serial answer), a successful generation-carrying write saw exactly its '
            'generation at the begin of its committing transaction.',
            'each top-level transaction atomic and isolated; switch points = top-level transaction begins; SQLite file with one connection per transaction',
            'DESIGN.md 5.C05'),
    'C06': ('E-conc', 'model_checking',
            'stateless exploration of ALL transaction-level interleavings of concurrent requests on the real service, with state matching',
            'Three start states (consumer absent / present / two present) x pairs of 11 allocation-writing operations on a '
            'common consumer (generation null / current / stale, other provider, other project/type, clear, POST batch, '
            'reshaper, DELETE as a disturbing party, a 1.12 write) at 1.12/1.28/1.34/1.38 x all interleavings (thorough: all 66 '
            'pairs per state + triples with preemption bound 2); includes the creation race and the window between '
            'ensure_consumer and the write transaction, and the writer || clear || re-create triple (record removed and re-created under the same uuid); same leaf oracle as C05 with the consumer-generation rule and the rule that a successful writer still addresses the consumer record it read.',
            'each top-level transaction atomic and isolated; DELETE /allocations (no generation) is only judged through its victims',
            'DESIGN.md 5.C06'),
    'C07': ('E-conc', 'model_checking',
            'stateless exploration of ALL transaction-level interleavings of concurrent requests on the real service, with state matching; differential serial oracle',
            'Start states with nearly-full inventories x pairs (thorough: all pairs of 13 operations in 4 states, two pairs from a database without project/user rows, + 16 triples, '
            'preemption bound 2) of allocation claims racing for the same inventory, multi-provider claims, POST batches and '
            'generation-guarded inventory/trait/aggregate updates x all interleavings; for every complete schedule class there '
            'must be a serial order of the successful requests, executed by the implementation itself on the same snapshot, in '
            'which all succeed and that ends in the same tables (generations included); evidence counts schedules that entered '
            'the server-side retry and its independent re-read.',
            'each top-level transaction atomic and isolated (serializable DBMS); expected side produced by the implementation run serially',
            'DESIGN.md 5.C07'),
    'C16': ('E-enum', 'exploration',
            'complete enumeration of operations x caller classes x single-rule policy overrides on the real service',
            'Every one of the 37 (route, method) operations x 14 caller classes x {default policy, each of the 38 registered '
            'rules overridden to "!" (quick) and to 6 different check strings (thorough)} in a populated state, judged by an '
            'independent evaluator of the documented rule strings: 401 without credentials, 403 and no SQL statement, no canary '
            'data and unchanged database for callers who do not satisfy the effective rule, the reference answer otherwise; an '
            'override must change exactly the operations documented for that rule.',
            'noauth2 test double supplies identities; keystone token validation itself is not exercised; oslo.policy 6 always enforces scope',
            'DESIGN.md 5.C16'),
    'C14': ('E-enum', 'exploration',
            'complete enumeration of the closed (version value x route x method) table and of feature probes x versions on the real service',
            'Closed space enumerated completely: 51 version values (none, 1.0-1.39, latest, out-of-range, malformed, '
            'other-service) x every declared route template + an unknown one x 7 methods, each with a request valid for '
            'that version, judged against a hand-written introduced-at table and the api-ref normal response codes; plus '
            '152 versioned-feature probes (at least one per microversion 1.1-1.39) with presence predicates evaluated at '
            'all 42 accepted version values; every accepted-version response is checked for openstack-api-version and Vary.',
            'oracle tables transcribed by hand from rest_api_version_history.rst and api-ref; one populated state (three in thorough); single admin+service caller',
            'DESIGN.md 5.C14'),
    'C01': ('E-seq', 'model_checking',
            'explicit-state BFS over request histories of the real service, depth-bounded',
            'All histories up to depth 4 (quick) / 5 (thorough) from three start states (no inventory, '
            'nearly full, over-committed by an inventory shrink) over inventory replacement to variants '
            'where reserved/max_unit/min_unit/step_size/fractional ratio each bind, PUT/POST/DELETE '
            'allocations at 1.8/1.12/1.28/1.39 for 2-3 consumers on one or two providers (several '
            'consumers landing on one inventory, clear-while-grow) and reshaper moving usage; on every '
            'transition the capacity/unit predicate is evaluated on the raw rows in IEEE double arithmetic.',
            'depth-bounded small scope (2 providers, 1 class, 2-3 consumers, amounts <= 4); SQLite stands in for the DBMS',
            'DESIGN.md 5.C01'),
    'C04': ('E-seq', 'model_checking',
            'explicit-state BFS + exhaustive failure placement on every explored state',
            'In every state of a BFS (depth 2 quick / 3 thorough) every request of a failure-placement '
            'generator is executed: POST /allocations (3 consumers x 2 providers), reshaper, PUT inventories/'
            'traits/aggregates with exactly element i broken in each failure kind (thorough: plus a second '
            'failure at j>i); a request answered >=400 must leave all tables and generations unchanged except '
            'projects/users/consumer_types; an accepted one must be stored exactly as named.',
            'small scope; effect oracle compares stored rows with what the request names (not a full model)',
            'DESIGN.md 5.C04'),
    'C08': ('E-seq', 'model_checking',
            'explicit-state BFS over request histories of the real service, depth-bounded',
            'All histories up to depth 3 (quick) / 5 (thorough) from three start states over creation, '
            'replacement and deletion of providers, inventories (standard + custom class), custom class/trait, '
            'aggregates, allocations and reshaper; INV-ref is evaluated on the raw rows after every request and '
            'every DELETE is compared with its refusal/cascade semantics. Second part (E-conc): all interleavings of 17 pairs "removal of an entity || request that starts using it" (incl. DELETE/clear of allocations against their replacement), judged by INV-ref on the final rows and serial equivalence.',
            'depth-bounded small scope; SQLite with foreign keys enforced',
            'DESIGN.md 5.C08'),
    'C10': ('E-seq', 'model_checking',
            'explicit-state BFS over request histories with a generation monitor on every transition',
            'All histories up to depth 2 (quick) / 3 (thorough) from three start states (populated, in use, providers still at generation 0) over an alphabet '
            'containing every write path, their stale-generation variants and every read route; the concrete '
            'pre/post generation columns are compared on every transition and the generation echoed by every '
            'read is compared with the stored one in every state. Second part (E-conc): all interleavings of 28 pairs (rename / re-parent, which carry no generation, against every bumping write; bumping writes against each other): no generation ever decreases between transaction begins, reported generations are reached, winners equal a serial order.',
            'depth-bounded small scope',
            'DESIGN.md 5.C10'),
    'C12': ('E-seq', 'model_checking',
            'explicit-state BFS to a fixpoint over request histories of the real service',
            'The abstract space (which consumers exist with which project/user/type) closes under the alphabet '
            '(allocation writes at 1.7/1.8/1.12/1.13/1.28/1.38, rejected variants, DELETE, reshaper) so the BFS '
            'reaches a fixpoint under default and overridden incomplete_consumer_* configuration; INV-consumer is '
            'evaluated on the rows after every request and GET /allocations is probed in every state.',
            'pool of 2 (quick) / 3 (thorough) consumers; amounts 0/1',
            'DESIGN.md 5.C12'),
    'C09': ('E-seq', 'model_checking',
            'explicit-state BFS to a fixpoint over request histories of the real service',
            'Every history of POST/PUT/DELETE /resource_providers requests (microversions 1.13, '
            '1.14, 1.37) over a pool of 4 (quick) / 5 (thorough) providers is covered: the state '
            'space of labelled forests closes, the search reaches a fixpoint, each transition is a '
            'real HTTP request on a restored database and is compared with a reference forest '
            'semantics, INV-forest is evaluated on the rows and the API views are probed in every '
            'state. Second part (E-conc, foreign keys on and off): all interleavings of 12 pairs of hierarchy-changing requests, incl. two moves of the same provider.',
            'pool of 4/5 providers instead of 8; SQLite with foreign keys enforced stands in for '
            'the DBMS; reference forest semantics written from the API documentation',
            'DESIGN.md 5.C09'),
}

NOT_YET = 'check not built yet in this session (planned, see DESIGN.md section 5)'


def main():
    props = [json.loads(l)['id'] for l in open(os.path.join(ROOT, 'properties.jsonl'))]
    checks = []
    for pid in props:
        if pid not in CHECKS:
            continue
        eng, cat, tech, text, note, ref = CHECKS[pid]
        checks.append({
            'property_id': pid,
            'quick_cmd': '%s -m vp.check %s --tier quick' % (PY, pid),
            'thorough_cmd': '%s -m vp.check %s --tier thorough' % (PY, pid),
            'evidence_file': '/verif/evidence/%s.json' % pid,
            'replay_cmd_template': '%s -m vp.check %s --replay {path}' % (PY, pid),
            'engine': eng,
            'level_claimed': {'category': cat, 'text': text, 'design_ref': ref},
            'level_note': note,
            'technique': tech,
        })
    m = {
        'version': 1,
        'setup_cmd': '%s -m compileall -q vp && %s -m vp.selftest' % (PY, PY),
        'hooks': {
            'guard': 'PLACEMENT_VERIF',
            'enable': 'none needed: all interposition is done from the harness side through '
                      'SQLAlchemy engine events, oslo.config overrides and module attributes; '
                      '/repo carries no hook commits',
            'baseline_off_cmd': 'cd /repo && /venv/bin/python -m pytest -q -p no:cacheprovider '
                                '--timeout=900 --continue-on-collection-errors',
            'source_commits': [],
            'add_only': True,
        },
        'engines': [
            {'name': 'E-seq', 'path': 'vp/explore_seq.py',
             'kind_free_text': 'explicit-state BFS over request histories of the real WSGI '
                               'service on snapshotted SQLite images'},
            {'name': 'E-conc', 'path': 'vp/explore_conc.py',
             'kind_free_text': 'all schedules of 2-3 concurrent requests at transaction '
                               'granularity (greenlets, state matching)'},
            {'name': 'E-fault', 'path': 'vp/faults.py',
             'kind_free_text': 'database fault at every statement index'},
            {'name': 'E-crash', 'path': 'vp/faults.py',
             'kind_free_text': 'process death at every statement/commit boundary'},
            {'name': 'E-enum', 'path': 'vp/enum.py',
             'kind_free_text': 'complete enumeration of finite input/configuration products'},
        ],
        'checks': checks,
        'not_applicable': [{'property_id': p, 'reason': NOT_YET} for p in props
                           if p not in CHECKS],
        'notes': 'All checks execute the unmodified code in /repo (editable install) through the '
                 'real WSGI pipeline; see DESIGN.md.',
    }
    for e in m['engines']:
        e['serves_properties'] = [p for p in props if p in CHECKS and CHECKS[p][0] == e['name']]
    with open(os.path.join(ROOT, 'MANIFEST.json'), 'w') as f:
        json.dump(m, f, indent=1)
    print('MANIFEST.json: %d checks, %d not claimed' % (len(checks), len(m['not_applicable'])))


if __name__ == '__main__':
    main()
